/* Read-only API: predicates and getters that do not hand out a reference (C18: frame is EMPTY, so any
 * store - even one undone before return - fails an `assigns` obligation), with their exact values. */
#ifndef VERIF_C_ITEMS_RO_H
#define VERIF_C_ITEMS_RO_H
#include "contracts/valid.h"

#define RO_PRED(name, expr)                                           \
  bool name(const cbor_item_t *item)                                  \
  __CPROVER_requires(ITEM_R(item))                                    \
  __CPROVER_assigns()                                                 \
  __CPROVER_ensures(__CPROVER_return_value == (expr));

#define IS_CTRL_VAL(item, v)                                                                       \
  ((item)->type == CBOR_TYPE_FLOAT_CTRL && (item)->metadata.float_ctrl_metadata.width == CBOR_FLOAT_0 && \
   (item)->metadata.float_ctrl_metadata.ctrl == (v))

/* common.c */
RO_PRED(cbor_isa_uint, item->type == CBOR_TYPE_UINT)
RO_PRED(cbor_isa_negint, item->type == CBOR_TYPE_NEGINT)
RO_PRED(cbor_isa_bytestring, item->type == CBOR_TYPE_BYTESTRING)
RO_PRED(cbor_isa_string, item->type == CBOR_TYPE_STRING)
RO_PRED(cbor_isa_array, item->type == CBOR_TYPE_ARRAY)
RO_PRED(cbor_isa_map, item->type == CBOR_TYPE_MAP)
RO_PRED(cbor_isa_tag, item->type == CBOR_TYPE_TAG)
RO_PRED(cbor_isa_float_ctrl, item->type == CBOR_TYPE_FLOAT_CTRL)
RO_PRED(cbor_is_int, IS_INT(item))
RO_PRED(cbor_is_bool, IS_CTRL_VAL(item, CBOR_CTRL_FALSE) || IS_CTRL_VAL(item, CBOR_CTRL_TRUE))
RO_PRED(cbor_is_null, IS_CTRL_VAL(item, CBOR_CTRL_NULL))
RO_PRED(cbor_is_undef, IS_CTRL_VAL(item, CBOR_CTRL_UNDEF))
RO_PRED(cbor_is_float, item->type == CBOR_TYPE_FLOAT_CTRL && item->metadata.float_ctrl_metadata.width != CBOR_FLOAT_0)

cbor_type cbor_typeof(const cbor_item_t *item)
__CPROVER_requires(ITEM_R(item)) __CPROVER_assigns()
__CPROVER_ensures(__CPROVER_return_value == item->type);

size_t cbor_refcount(const cbor_item_t *item)
__CPROVER_requires(ITEM_R(item)) __CPROVER_assigns()
__CPROVER_ensures(__CPROVER_return_value == item->refcount);

/* ints.c */
cbor_int_width cbor_int_get_width(const cbor_item_t *item)
__CPROVER_requires(ITEM_R(item) && IS_INT(item)) __CPROVER_assigns()
__CPROVER_ensures(__CPROVER_return_value == item->metadata.int_metadata.width);

uint8_t cbor_get_uint8(const cbor_item_t *item)
__CPROVER_requires(INT_VALID(item) && INT_WIDTH(item) == CBOR_INT_8) __CPROVER_assigns()
__CPROVER_ensures(__CPROVER_return_value == *PAYLOAD(item));
uint16_t cbor_get_uint16(const cbor_item_t *item)
__CPROVER_requires(INT_VALID(item) && INT_WIDTH(item) == CBOR_INT_16) __CPROVER_assigns()
__CPROVER_ensures(__CPROVER_return_value == *(uint16_t *)PAYLOAD(item));
uint32_t cbor_get_uint32(const cbor_item_t *item)
__CPROVER_requires(INT_VALID(item) && INT_WIDTH(item) == CBOR_INT_32) __CPROVER_assigns()
__CPROVER_ensures(__CPROVER_return_value == *(uint32_t *)PAYLOAD(item));
uint64_t cbor_get_uint64(const cbor_item_t *item)
__CPROVER_requires(INT_VALID(item) && INT_WIDTH(item) == CBOR_INT_64) __CPROVER_assigns()
__CPROVER_ensures(__CPROVER_return_value == *(uint64_t *)PAYLOAD(item));
uint64_t cbor_get_int(const cbor_item_t *item)
__CPROVER_requires(INT_VALID(item)) __CPROVER_assigns()
__CPROVER_ensures(__CPROVER_return_value ==
                  (INT_WIDTH(item) == CBOR_INT_8    ? (uint64_t)*PAYLOAD(item)
                   : INT_WIDTH(item) == CBOR_INT_16 ? (uint64_t)*(uint16_t *)PAYLOAD(item)
                   : INT_WIDTH(item) == CBOR_INT_32 ? (uint64_t)*(uint32_t *)PAYLOAD(item)
                                                    : *(uint64_t *)PAYLOAD(item)));

/* floats_ctrls.c */
cbor_float_width cbor_float_get_width(const cbor_item_t *item)
__CPROVER_requires(ITEM_R(item) && item->type == CBOR_TYPE_FLOAT_CTRL) __CPROVER_assigns()
__CPROVER_ensures(__CPROVER_return_value == item->metadata.float_ctrl_metadata.width);
uint8_t cbor_ctrl_value(const cbor_item_t *item)
__CPROVER_requires(ITEM_R(item) && item->type == CBOR_TYPE_FLOAT_CTRL && FL_WIDTH(item) == CBOR_FLOAT_0) __CPROVER_assigns()
__CPROVER_ensures(__CPROVER_return_value == item->metadata.float_ctrl_metadata.ctrl);
bool cbor_float_ctrl_is_ctrl(const cbor_item_t *item)
__CPROVER_requires(ITEM_R(item) && item->type == CBOR_TYPE_FLOAT_CTRL) __CPROVER_assigns()
__CPROVER_ensures(__CPROVER_return_value == (FL_WIDTH(item) == CBOR_FLOAT_0));
/* float getters: the stored bit pattern is returned unchanged (C15) */
#define F32_AT(p) (*(uint32_t *)(p))
#define F64_AT(p) (*(uint64_t *)(p))
#define RET_F32_BITS (((union { float as_f; uint32_t as_u; }){.as_f = __CPROVER_return_value}).as_u)
#define RET_F64_BITS (((union { double as_d; uint64_t as_u; }){.as_d = __CPROVER_return_value}).as_u)
float cbor_float_get_float2(const cbor_item_t *item)
__CPROVER_requires(FLOAT_CTRL_VALID(item) && FL_WIDTH(item) == CBOR_FLOAT_16) __CPROVER_assigns()
__CPROVER_ensures(RET_F32_BITS == F32_AT(PAYLOAD(item)));
float cbor_float_get_float4(const cbor_item_t *item)
__CPROVER_requires(FLOAT_CTRL_VALID(item) && FL_WIDTH(item) == CBOR_FLOAT_32) __CPROVER_assigns()
__CPROVER_ensures(RET_F32_BITS == F32_AT(PAYLOAD(item)));
double cbor_float_get_float8(const cbor_item_t *item)
__CPROVER_requires(FLOAT_CTRL_VALID(item) && FL_WIDTH(item) == CBOR_FLOAT_64) __CPROVER_assigns()
__CPROVER_ensures(RET_F64_BITS == F64_AT(PAYLOAD(item)));
double cbor_float_get_float(const cbor_item_t *item)
__CPROVER_requires(FLOAT_CTRL_VALID(item) && FL_WIDTH(item) != CBOR_FLOAT_0) __CPROVER_assigns();
bool cbor_get_bool(const cbor_item_t *item)
__CPROVER_requires(ITEM_R(item) && (IS_CTRL_VAL(item, CBOR_CTRL_FALSE) || IS_CTRL_VAL(item, CBOR_CTRL_TRUE))) __CPROVER_assigns()
__CPROVER_ensures(__CPROVER_return_value == (item->metadata.float_ctrl_metadata.ctrl == CBOR_CTRL_TRUE));

/* bytestrings.c / strings.c */
size_t cbor_bytestring_length(const cbor_item_t *item)
__CPROVER_requires(ITEM_R(item) && item->type == CBOR_TYPE_BYTESTRING) __CPROVER_assigns()
__CPROVER_ensures(__CPROVER_return_value == BS_META(item).length);
unsigned char *cbor_bytestring_handle(const cbor_item_t *item)
__CPROVER_requires(ITEM_R(item) && item->type == CBOR_TYPE_BYTESTRING) __CPROVER_assigns()
__CPROVER_ensures(__CPROVER_return_value == item->data);
bool cbor_bytestring_is_definite(const cbor_item_t *item)
__CPROVER_requires(ITEM_R(item) && item->type == CBOR_TYPE_BYTESTRING) __CPROVER_assigns()
__CPROVER_ensures(__CPROVER_return_value == (BS_META(item).type == _CBOR_METADATA_DEFINITE));
bool cbor_bytestring_is_indefinite(const cbor_item_t *item)
__CPROVER_requires(ITEM_R(item) && item->type == CBOR_TYPE_BYTESTRING) __CPROVER_assigns()
__CPROVER_ensures(__CPROVER_return_value == (BS_META(item).type != _CBOR_METADATA_DEFINITE));
cbor_item_t **cbor_bytestring_chunks_handle(const cbor_item_t *item)
__CPROVER_requires(BYTESTRING_INDEF_VALID(item)) __CPROVER_assigns()
__CPROVER_ensures(__CPROVER_return_value == CHUNKS(item)->chunks);
size_t cbor_bytestring_chunk_count(const cbor_item_t *item)
__CPROVER_requires(BYTESTRING_INDEF_VALID(item)) __CPROVER_assigns()
__CPROVER_ensures(__CPROVER_return_value == CHUNKS(item)->chunk_count);

size_t cbor_string_length(const cbor_item_t *item)
__CPROVER_requires(ITEM_R(item) && item->type == CBOR_TYPE_STRING) __CPROVER_assigns()
__CPROVER_ensures(__CPROVER_return_value == ST_META(item).length);
unsigned char *cbor_string_handle(const cbor_item_t *item)
__CPROVER_requires(ITEM_R(item) && item->type == CBOR_TYPE_STRING) __CPROVER_assigns()
__CPROVER_ensures(__CPROVER_return_value == item->data);
size_t cbor_string_codepoint_count(const cbor_item_t *item)
__CPROVER_requires(ITEM_R(item) && item->type == CBOR_TYPE_STRING) __CPROVER_assigns()
__CPROVER_ensures(__CPROVER_return_value == ST_META(item).codepoint_count);
bool cbor_string_is_definite(const cbor_item_t *item)
__CPROVER_requires(ITEM_R(item) && item->type == CBOR_TYPE_STRING) __CPROVER_assigns()
__CPROVER_ensures(__CPROVER_return_value == (ST_META(item).type == _CBOR_METADATA_DEFINITE));
bool cbor_string_is_indefinite(const cbor_item_t *item)
__CPROVER_requires(ITEM_R(item) && item->type == CBOR_TYPE_STRING) __CPROVER_assigns()
__CPROVER_ensures(__CPROVER_return_value == (ST_META(item).type != _CBOR_METADATA_DEFINITE));
cbor_item_t **cbor_string_chunks_handle(const cbor_item_t *item)
__CPROVER_requires(STRING_INDEF_VALID(item)) __CPROVER_assigns()
__CPROVER_ensures(__CPROVER_return_value == CHUNKS(item)->chunks);
size_t cbor_string_chunk_count(const cbor_item_t *item)
__CPROVER_requires(STRING_INDEF_VALID(item)) __CPROVER_assigns()
__CPROVER_ensures(__CPROVER_return_value == CHUNKS(item)->chunk_count);

/* arrays.c / maps.c / tags.c */
size_t cbor_array_size(const cbor_item_t *item)
__CPROVER_requires(ITEM_R(item) && item->type == CBOR_TYPE_ARRAY) __CPROVER_assigns()
__CPROVER_ensures(__CPROVER_return_value == AR_META(item).end_ptr);
size_t cbor_array_allocated(const cbor_item_t *item)
__CPROVER_requires(ITEM_R(item) && item->type == CBOR_TYPE_ARRAY) __CPROVER_assigns()
__CPROVER_ensures(__CPROVER_return_value == AR_META(item).allocated);
bool cbor_array_is_definite(const cbor_item_t *item)
__CPROVER_requires(ITEM_R(item) && item->type == CBOR_TYPE_ARRAY) __CPROVER_assigns()
__CPROVER_ensures(__CPROVER_return_value == (AR_META(item).type == _CBOR_METADATA_DEFINITE));
bool cbor_array_is_indefinite(const cbor_item_t *item)
__CPROVER_requires(ITEM_R(item) && item->type == CBOR_TYPE_ARRAY) __CPROVER_assigns()
__CPROVER_ensures(__CPROVER_return_value == (AR_META(item).type == _CBOR_METADATA_INDEFINITE));
cbor_item_t **cbor_array_handle(const cbor_item_t *item)
__CPROVER_requires(ITEM_R(item) && item->type == CBOR_TYPE_ARRAY) __CPROVER_assigns()
__CPROVER_ensures(__CPROVER_return_value == (cbor_item_t **)item->data);

size_t cbor_map_size(const cbor_item_t *item)
__CPROVER_requires(ITEM_R(item) && item->type == CBOR_TYPE_MAP) __CPROVER_assigns()
__CPROVER_ensures(__CPROVER_return_value == MP_META(item).end_ptr);
size_t cbor_map_allocated(const cbor_item_t *item)
__CPROVER_requires(ITEM_R(item) && item->type == CBOR_TYPE_MAP) __CPROVER_assigns()
__CPROVER_ensures(__CPROVER_return_value == MP_META(item).allocated);
bool cbor_map_is_definite(const cbor_item_t *item)
__CPROVER_requires(ITEM_R(item) && item->type == CBOR_TYPE_MAP) __CPROVER_assigns()
__CPROVER_ensures(__CPROVER_return_value == (MP_META(item).type == _CBOR_METADATA_DEFINITE));
bool cbor_map_is_indefinite(const cbor_item_t *item)
__CPROVER_requires(ITEM_R(item) && item->type == CBOR_TYPE_MAP) __CPROVER_assigns()
__CPROVER_ensures(__CPROVER_return_value == (MP_META(item).type != _CBOR_METADATA_DEFINITE));
struct cbor_pair *cbor_map_handle(const cbor_item_t *item)
__CPROVER_requires(ITEM_R(item) && item->type == CBOR_TYPE_MAP) __CPROVER_assigns()
__CPROVER_ensures(__CPROVER_return_value == (struct cbor_pair *)item->data);

uint64_t cbor_tag_value(const cbor_item_t *tag)
__CPROVER_requires(ITEM_R(tag) && tag->type == CBOR_TYPE_TAG) __CPROVER_assigns()
__CPROVER_ensures(__CPROVER_return_value == TG_META(tag).value);
#endif
