#include "contracts/builder.h"
struct verif_builder_ghost g_b;
struct verif_builder_const g_bc;
