/* Serialization layer: one node of shallow validity, children through the induction-hypothesis twins.
 * -DSER_KIND_* selects the node kind, -DSER_FN the function under proof (a per-type serializer,
 * cbor_serialized_size, or the dispatcher). */
#include "harness/mkitem.h"
#include "stubs/alloc_model.h"
#include "contracts/serialization.h"

size_t cbor_serialize__top(const cbor_item_t *item, unsigned char *buffer, size_t buffer_size);
size_t cbor_serialized_size__top(const cbor_item_t *item);
size_t cbor_serialize_bytestring__top(const cbor_item_t *item, unsigned char *buffer, size_t buffer_size);
size_t cbor_serialize_string__top(const cbor_item_t *item, unsigned char *buffer, size_t buffer_size);

void harness(void) {
  VERIF_ALLOC_RESET();
  verif_bind_allocator();
  g_alloc_forbidden = true; /* fixed-buffer serialization and size computation request no memory (C13) */
  g_k = nondet_size();
  __CPROVER_assume(g_k <= VERIF_MAXCNT);
  g_s.valid = false;
  g_z.calls = 0; g_z.sum = 0; g_z.ovf = false; g_z.zero = false; g_z.ordered = true; g_z.contig = true;
  g_z.first = NULL; g_z.end = NULL;
  g_zc.slots = NULL; g_zc.pairs = NULL; g_zc.n = 0; g_zc.hdr = 0;
#if defined(SER_KIND_ANY)
  /* any item (cbor_serialize_alloc never looks inside: size and serialization are the induction-hypothesis twins) */
  cbor_item_t *it = mk_any();
#elif defined(SER_KIND_INT)
  cbor_item_t *it = mk_int();
#elif defined(SER_KIND_FLOAT_CTRL)
  cbor_item_t *it = mk_float_ctrl();
#elif defined(SER_KIND_DEF_BYTESTRING)
  cbor_item_t *it = mk_def_bytestring();
  g_s.valid = true;
  if (g_k < it->metadata.bytestring_metadata.length) g_s.byte = it->data[g_k];
#elif defined(SER_KIND_DEF_STRING)
  cbor_item_t *it = mk_def_string();
  g_s.valid = true;
  if (g_k < it->metadata.string_metadata.length) g_s.byte = it->data[g_k];
#elif defined(SER_KIND_INDEF_BYTESTRING) || defined(SER_KIND_INDEF_STRING)
#if defined(SER_KIND_INDEF_BYTESTRING)
  cbor_item_t *it = mk_indef_bytestring();
#else
  cbor_item_t *it = mk_indef_string();
#endif
  g_zc.slots = CHUNKS(it)->chunks; g_zc.n = CHUNKS(it)->chunk_count;
#ifdef SER_SIZE
  g_zc.hdr = 2;
#else
  g_zc.hdr = 1;
#endif
#elif defined(SER_KIND_ARRAY)
  cbor_item_t *it = mk_array();
  g_zc.slots = (cbor_item_t **)it->data; g_zc.n = it->metadata.array_metadata.end_ptr;
#ifdef SER_SIZE
  g_zc.hdr = it->metadata.array_metadata.type == _CBOR_METADATA_DEFINITE ? 1 + spec_shortest_argbytes(g_zc.n) : 2;
#else
  g_zc.hdr = it->metadata.array_metadata.type == _CBOR_METADATA_DEFINITE ? 1 + spec_shortest_argbytes(g_zc.n) : 1;
#endif
#elif defined(SER_KIND_MAP)
  cbor_item_t *it = mk_map();
  g_zc.pairs = (struct cbor_pair *)it->data; g_zc.n = it->metadata.map_metadata.end_ptr;
#ifdef SER_SIZE
  g_zc.hdr = it->metadata.map_metadata.type == _CBOR_METADATA_DEFINITE ? 1 + spec_shortest_argbytes(g_zc.n) : 2;
#else
  g_zc.hdr = it->metadata.map_metadata.type == _CBOR_METADATA_DEFINITE ? 1 + spec_shortest_argbytes(g_zc.n) : 1;
#endif
#elif defined(SER_KIND_TAG)
  cbor_item_t *it = mk_tag();
  it->metadata.tag_metadata.tagged_item = nondet_ptr();
  g_zc.slots = &it->metadata.tag_metadata.tagged_item; g_zc.n = 1;
  g_zc.hdr = 1 + spec_shortest_argbytes(it->metadata.tag_metadata.value);
#endif
#if defined(SER_ALLOC_ANY)
  /* cbor_serialize_alloc for an item of any kind, lemma style: the size and the serialization of the item are the hereditary
   * contracts (twins) that the per-kind proofs establish - size == USIZE(item), serialization == USIZE(item) when it fits */
  g_alloc_forbidden = false;
  unsigned char **pbuf = mk_block(sizeof(*pbuf));
  size_t *psize = nondet_bool() ? NULL : mk_block(sizeof(*psize));
  size_t live0 = g_live;
  size_t r = cbor_serialize_alloc(it, pbuf, psize);
  if (r == 0) {
    __CPROVER_assert(*pbuf == NULL && (psize == NULL || *psize == 0), "C06,C07: failure: null buffer, size 0");
    __CPROVER_assert(g_live == live0, "C06: failure leaves nothing allocated");
    __CPROVER_assert(USIZE(it) == 0 || g_refused, "C07,C06: failure only when the size is not representable or the allocator refused");
  } else {
    __CPROVER_assert(r == USIZE(it) && (psize == NULL || *psize == r), "C07: the returned length is the serialized size of the item");
    __CPROVER_assert(g_malloc_calls == 1 && g_last_req == r && g_live == live0 + 1 && *pbuf != NULL,
                     "C07,C13: one block of exactly that size is requested and handed to the caller");
    __CPROVER_assert(g_z.calls == 2 && g_z.end == *pbuf + r, "C07: the item is serialized once, into exactly that block");
  }
  __CPROVER_assert(g_realloc_calls == 0 && g_free_calls <= 1, "C13: no other allocator traffic");
  __CPROVER_assert(r != 0, "COVER serialize_alloc failed");
  __CPROVER_assert(!(r == 0 && g_refused), "COVER allocation refused");
  __CPROVER_assert(r == 0, "COVER serialize_alloc succeeded");
  __CPROVER_assert(!(r != 0 && psize == NULL), "COVER size pointer omitted");
  return;
#elif defined(SER_ALLOC)
  /* cbor_serialize_alloc: every allocator request may be refused */
  g_alloc_forbidden = false;
  unsigned char **pbuf = mk_block(sizeof(*pbuf));
  size_t *psize = nondet_bool() ? NULL : mk_block(sizeof(*psize));
  size_t live0 = g_live;
  size_t r = cbor_serialize_alloc(it, pbuf, psize);
  __CPROVER_assert(r != 0, "COVER serialize_alloc failed (allocation refused)");
  __CPROVER_assert(r == 0, "COVER serialize_alloc succeeded");
  __CPROVER_assert(!(r != 0 && psize == NULL), "COVER size pointer omitted");
  (void)live0;
  return;
#elif defined(SER_SIZE)
  size_t r = SER_FN(it);
#if defined(SER_KIND_ARRAY) || defined(SER_KIND_MAP) || defined(SER_KIND_INDEF_STRING) || defined(SER_KIND_INDEF_BYTESTRING) || defined(SER_KIND_TAG)
#if defined(VERIF_MAP_HEAD_ONLY)
  __CPROVER_assert(!(r != 0 && it->metadata.map_metadata.allocated > 70000), "COVER empty map with a large capacity");
#else
  __CPROVER_assert(r != 0, "COVER size not representable (0)");
#if !defined(SER_KIND_TAG)
  __CPROVER_assert(!(r != 0 && g_z.calls >= 3), "COVER size over three or more children");
#endif
#endif
#endif
  __CPROVER_assert(r == 0, "COVER size computed");
#else
  size_t in_size = nondet_size(), in_off = nondet_size();
  __CPROVER_assume(in_size <= VERIF_MAXOBJ && in_off <= 8);
  unsigned char *base = mk_block(in_off + in_size);
  unsigned char *buf = base + in_off;
  size_t r = SER_FN(it, buf, in_size);
#if defined(SER_LEMMA) && defined(SER_KIND_MAP)
  /* lemma style: cbor_serialize_map's specification asserted on the real function (enforcing the contract with its
   * frame over the pair storage did not finish) */
  {
    bool def = it->metadata.map_metadata.type == _CBOR_METADATA_DEFINITE;
    size_t n = it->metadata.map_metadata.end_ptr, brk = def ? 0 : 1;
    __CPROVER_assert(r <= in_size, "C07: the result never exceeds the window");
    if (r != 0) {
      __CPROVER_assert(g_z.calls == 2 * n && !g_z.ovf && !g_z.zero && g_z.ordered && g_z.contig,
                       "C03: every key and value serialized exactly once, in pair order, in contiguous windows");
      __CPROVER_assert(!__CPROVER_overflow_plus(g_zc.hdr, g_z.sum) && r == g_zc.hdr + g_z.sum + brk,
                       "C07,C03: success returns the exact total: head + members (+ break)");
      __CPROVER_assert(n == 0 || (g_z.first == buf + g_zc.hdr && g_z.end == buf + (r - brk)), "C03: members directly behind the head");
      if (def)
        __CPROVER_assert(ENC_BYTES_ARE(buf, 5, spec_shortest_argbytes(n), n), "C03: definite map head = shortest head of the PAIR COUNT");
      else
        __CPROVER_assert(buf[0] == 0xBF && buf[r - 1] == 0xFF, "C03: indefinite map: start byte, members, break");
    } else {
      __CPROVER_assert(g_z.zero || g_z.ovf || __CPROVER_overflow_plus(g_zc.hdr, g_z.sum) ||
                       in_size < g_zc.hdr + g_z.sum || (g_z.calls == 2 * n && in_size - (g_zc.hdr + g_z.sum) < brk),
                       "C07: failure only when the window is too small for what was attempted (hence for the total)");
    }
  }
#endif
  __CPROVER_assert(r != 0, "COVER buffer too small (0)");
  __CPROVER_assert(r == 0, "COVER serialized");
#if defined(SER_KIND_ARRAY) || defined(SER_KIND_MAP) || defined(SER_KIND_INDEF_STRING) || defined(SER_KIND_INDEF_BYTESTRING)
  __CPROVER_assert(!(r != 0 && g_zc.n >= 3), "COVER three or more children serialized");
  __CPROVER_assert(!(r == 0 && g_z.calls >= 2), "COVER failure after some children were written");
#endif
#endif
  __CPROVER_assert(g_malloc_calls == 0 && g_realloc_calls == 0 && g_free_calls == 0,
                   "C13,C07: serialization into a caller buffer and size computation request no memory");
}
