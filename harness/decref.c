/* cbor_decref step, one proof per node kind (-DKIND_*): the node has shallow validity, its children are
 * arbitrary pointers released through the induction-hypothesis twin cbor_decref__child. */
#include "harness/mkitem.h"
#include "stubs/alloc_model.h"
#include "contracts/refcount.h"

/* bound to the real cbor_decref after the recursive call sites have been redirected to the twin */
void cbor_decref__top(cbor_item_t **item_ref);

void harness(void) {
  VERIF_ALLOC_RESET();
  verif_bind_allocator();
  g_k = nondet_size();
  __CPROVER_assume(g_k <= VERIF_MAXCNT); /* keeps base + g_k inside pointer arithmetic range */
  g_s.valid = false;
  g_d.calls = 0; g_d.hits = 0; g_d.last = NULL; g_dc.watched = NULL; g_dc.expect = true; g_dc.watch_value = false;
  size_t n_children = 0; /* number of child slots */
  size_t blocks = 1;     /* blocks a last release must hand to free */
#if defined(KIND_INT)
  cbor_item_t *it = mk_int();
#elif defined(KIND_FLOAT_CTRL)
  cbor_item_t *it = mk_float_ctrl();
#elif defined(KIND_DEF_BYTESTRING)
  cbor_item_t *it = mk_def_bytestring(); blocks = 2;
#elif defined(KIND_DEF_STRING)
  cbor_item_t *it = mk_def_string(); blocks = 2;
#elif defined(KIND_INDEF_BYTESTRING) || defined(KIND_INDEF_STRING)
#if defined(KIND_INDEF_BYTESTRING)
  cbor_item_t *it = mk_indef_bytestring();
#else
  cbor_item_t *it = mk_indef_string();
#endif
  blocks = 3;
  n_children = CHUNKS(it)->chunk_count;
  g_dc.watched = g_k < n_children ? CHUNKS(it)->chunks + g_k : NULL; /* no pointer sum outside the table (or on a NULL table) */
#elif defined(KIND_ARRAY)
  cbor_item_t *it = mk_array(); blocks = 2;
  n_children = it->metadata.array_metadata.end_ptr;
  g_dc.watched = g_k < n_children ? (cbor_item_t **)it->data + g_k : NULL;
  if (g_k < n_children) g_dc.expect = ((cbor_item_t **)it->data)[g_k] != NULL;
#elif defined(KIND_MAP)
  cbor_item_t *it = mk_map(); blocks = 2;
  n_children = it->metadata.map_metadata.end_ptr;
#ifdef MAP_BOUND
  __CPROVER_assume(n_children <= MAP_BOUND); /* bounded stand-in: see registry entry decref_map_bounded */
#endif
  g_dc.watch_value = nondet_bool();
  if (g_dc.watch_value) {
    g_dc.watched = g_k < n_children ? &((struct cbor_pair *)it->data)[g_k].value : NULL;
    if (g_k < n_children) g_dc.expect = ((struct cbor_pair *)it->data)[g_k].value != NULL;
  } else {
    g_dc.watched = g_k < n_children ? &((struct cbor_pair *)it->data)[g_k].key : NULL;
  }
#elif defined(KIND_TAG)
  cbor_item_t *it = mk_tag(); blocks = 2;
  it->metadata.tag_metadata.tagged_item = nondet_ptr();
  n_children = 1;
  g_k = 0;
  g_dc.watched = &it->metadata.tag_metadata.tagged_item;
  g_dc.expect = it->metadata.tag_metadata.tagged_item != NULL;
#endif
  g_dc.n = n_children;
#if defined(KIND_MAP)
  g_dc.pairs = (struct cbor_pair *)it->data;
#else
  g_dc.pairs = NULL;
#endif
  unsigned char *snap_data = it->data;
#if defined(KIND_INDEF_BYTESTRING) || defined(KIND_INDEF_STRING)
  bool chunks_null = CHUNKS(it)->chunks == NULL;
#define CHUNKS_SNAP_NULL chunks_null
#endif
  (void)snap_data;
  size_t in_rc = it->refcount;
  size_t live0 = g_live, free0 = g_free_calls;
  cbor_item_t *ref = it;
  cbor_decref__top(&ref);
  if (in_rc == 1) {
    __CPROVER_assert(ref == NULL, "C04: the caller's pointer is nulled when the last reference goes away");
    /* free(NULL) is a call but releases nothing: count blocks through g_live */
    __CPROVER_assert(g_free_calls == free0 + blocks, "C04,C13: each block of the node is handed to the configured free exactly once");
    __CPROVER_assert(live0 - g_live <= blocks, "C04: nothing but the node's own blocks is released");
    if (n_children == 0 || (g_dc.watched != NULL && 0)) {
      /* childless release (used by the opener callbacks through cbor_decref__childless): exact accounting */
#if defined(KIND_INT) || defined(KIND_FLOAT_CTRL)
      __CPROVER_assert(g_live == live0 - 1, "C04,C06: a leaf releases exactly its one block");
#elif defined(KIND_INDEF_BYTESTRING) || defined(KIND_INDEF_STRING)
      if (CHUNKS_SNAP_NULL) __CPROVER_assert(g_live == live0 - 2, "C04,C06: a childless chunked string releases node and bookkeeping block");
#elif defined(KIND_ARRAY) || defined(KIND_MAP) || defined(KIND_DEF_BYTESTRING) || defined(KIND_DEF_STRING)
      __CPROVER_assert(g_live == live0 - 1 - (snap_data != NULL ? 1 : 0), "C04,C06: a childless container releases node and storage");
#endif
    }
    if (g_k < n_children)
      __CPROVER_assert(g_d.hits == (g_dc.expect ? 1 : 0), "C04: every stored child is released exactly once (watched slot)");
    __CPROVER_assert(g_d.calls <= 2 * n_children, "C04: no release beyond the stored children");
  } else {
    __CPROVER_assert(ref == it && g_d.calls == 0 && g_free_calls == free0, "C04: a non-last release frees nothing and touches no child");
  }
  __CPROVER_assert(!(in_rc == 1), "COVER last reference released");
  __CPROVER_assert(!(in_rc > 1), "COVER non-last reference released");
#if defined(KIND_ARRAY) || defined(KIND_MAP) || defined(KIND_INDEF_BYTESTRING) || defined(KIND_INDEF_STRING)
  __CPROVER_assert(!(in_rc == 1 && g_k + 1 < n_children), "COVER several children, watched one in the middle");
  __CPROVER_assert(!(in_rc == 1 && n_children == 0), "COVER empty container released");
#endif
}
