/* Contracts for src/cbor/serialization.c (C03 exact encoding, C07 size/serialize agreement and buffer
 * frame, C18 read-only, C20 exact-or-0 size arithmetic, C13 no allocation).
 *
 * Subtrees are abstracted by an uninterpreted function: USIZE(child) is "the serialized size of the subtree
 * rooted at child" (0 when it cannot be represented in size_t).  The induction-hypothesis twins
 * cbor_serialized_size__child / cbor_serialize__child / ..._bytestring__child / ..._string__child promise, for
 * a child, what the contracts below promise for a node (structural induction over the tree: A1), and keep a
 * ghost account of the children handed to them: how many, in which order, the sum of their sizes, where the
 * last one's output window ended. */
#ifndef VERIF_C_SERIALIZATION_H
#define VERIF_C_SERIALIZATION_H
#include "contracts/items_cont.h"
#include "contracts/encoders.h"

size_t __CPROVER_uninterpreted_usize(const cbor_item_t *item);
#define USIZE(it) __CPROVER_uninterpreted_usize(it)

struct verif_ser_ghost {
  size_t calls;         /* children handed to a twin so far */
  size_t sum;           /* sum of USIZE(child) over them (wrapping) */
  bool ovf;             /* that sum wrapped */
  bool zero;            /* some child has USIZE == 0 */
  bool ordered;         /* every child so far was the next one in storage order */
  bool contig;          /* every output window so far started where the previous one ended */
  unsigned char *first; /* start of the first child's output window */
  unsigned char *end;   /* end of the last child's output window */
};
extern struct verif_ser_ghost g_z;
/* constants of one step proof (set by the harness, never assigned afterwards) */
struct verif_ser_const {
  cbor_item_t **slots;     /* arrays, chunk tables: child i is slots[i] */
  struct cbor_pair *pairs; /* maps: child 2i is pairs[i].key, child 2i+1 is pairs[i].value */
  size_t n;                /* number of children */
  size_t hdr;              /* bytes before the first child: shortest head of the count, or 1 (indefinite start) */
};
extern struct verif_ser_const g_zc;

/* evaluated in the post-state of a twin call (calls already incremented): the child just handed over was the
 * next one in storage order */
#define NEXT_CHILD_WAS(item)                                                                          \
  ((g_zc.slots != NULL && g_z.calls - 1 < g_zc.n && (item) == g_zc.slots[g_z.calls - 1]) ||           \
   (g_zc.pairs != NULL && g_z.calls - 1 < 2 * g_zc.n &&                                               \
    (item) == (((g_z.calls - 1) & 1) ? g_zc.pairs[(g_z.calls - 1) / 2].value : g_zc.pairs[(g_z.calls - 1) / 2].key)))

#define SER_GHOST_STEP(item, u)                                                                       \
  (g_z.calls == OLD(g_z.calls) + 1 && g_z.sum == OLD(g_z.sum) + (u) &&                                \
   g_z.ovf == (OLD(g_z.ovf) || __CPROVER_overflow_plus(OLD(g_z.sum), (u))) &&                         \
   g_z.zero == (OLD(g_z.zero) || (u) == 0))

/* ------------------------------------------------------------------ twins (induction hypotheses) */
size_t cbor_serialized_size__child(const cbor_item_t *item)
__CPROVER_requires(g_z.calls < SIZE_MAX / 4)
__CPROVER_assigns(g_z)
__CPROVER_ensures(RET == USIZE(item) && SER_GHOST_STEP(item, USIZE(item)))
__CPROVER_ensures(g_z.ordered == (OLD(g_z.ordered) && NEXT_CHILD_WAS(item)) && g_z.contig == OLD(g_z.contig) &&
                  g_z.first == OLD(g_z.first) && g_z.end == OLD(g_z.end));

#define SERIALIZE_CHILD_CONTRACT                                                                      \
  __CPROVER_requires(g_z.calls < SIZE_MAX / 4 && __CPROVER_w_ok(buffer, buffer_size))                 \
  __CPROVER_assigns(g_z)                                                                              \
  __CPROVER_assigns(buffer_size > 0 : __CPROVER_object_upto(buffer, buffer_size))                     \
  /* a child's serialization returns its size when the window is large enough, 0 otherwise */         \
  __CPROVER_ensures(RET <= buffer_size && (RET == 0 || RET == USIZE(item)))                           \
  __CPROVER_ensures((USIZE(item) != 0 && buffer_size >= USIZE(item)) ==> RET == USIZE(item))          \
  __CPROVER_ensures(SER_GHOST_STEP(item, USIZE(item)))                                                \
  __CPROVER_ensures(g_z.ordered == (OLD(g_z.ordered) && NEXT_CHILD_WAS(item)) &&                  \
                    g_z.contig == (OLD(g_z.contig) && (OLD(g_z.calls) == 0 || buffer == OLD(g_z.end))) && \
                    g_z.first == (OLD(g_z.calls) == 0 ? buffer : OLD(g_z.first)) && g_z.end == buffer + RET)

size_t cbor_serialize__child(const cbor_item_t *item, unsigned char *buffer, size_t buffer_size)
SERIALIZE_CHILD_CONTRACT;
size_t cbor_serialize_bytestring__child(const cbor_item_t *item, unsigned char *buffer, size_t buffer_size)
SERIALIZE_CHILD_CONTRACT;
size_t cbor_serialize_string__child(const cbor_item_t *item, unsigned char *buffer, size_t buffer_size)
SERIALIZE_CHILD_CONTRACT;

/* ------------------------------------------------------------------ header size */
size_t _cbor_encoded_header_size(uint64_t size)
__CPROVER_assigns()
__CPROVER_ensures(RET == 1 + spec_shortest_argbytes(size));

/* ------------------------------------------------------------------ leaf serializers: exactly the encoder's contract */
#define INT_VALUE(it)                                                                                 \
  (INT_WIDTH(it) == CBOR_INT_8 ? (uint64_t)*PAYLOAD(it) : INT_WIDTH(it) == CBOR_INT_16 ? (uint64_t)*(uint16_t *)PAYLOAD(it) \
   : INT_WIDTH(it) == CBOR_INT_32 ? (uint64_t)*(uint32_t *)PAYLOAD(it) : *(uint64_t *)PAYLOAD(it))
/* integers are written at their STORED width (8-bit items: immediate up to 23) */
#define INT_ARGBYTES(it)                                                                              \
  (INT_WIDTH(it) == CBOR_INT_8 ? (*PAYLOAD(it) <= 23 ? 0u : 1u) : INT_WIDTH(it) == CBOR_INT_16 ? 2u    \
   : INT_WIDTH(it) == CBOR_INT_32 ? 4u : 8u)

#define LEAF_SERIALIZER(name, VALID, major, AB, V)                                                    \
  size_t name(const cbor_item_t *item, unsigned char *buffer, size_t buffer_size)                     \
  __CPROVER_requires((VALID) && __CPROVER_w_ok(buffer, buffer_size))                                  \
  __CPROVER_assigns(buffer_size > 0 : __CPROVER_object_upto(buffer, buffer_size))                     \
  __CPROVER_ensures(RET == (buffer_size >= 1 + (AB) ? (size_t)(1 + (AB)) : (size_t)0))                \
  __CPROVER_ensures(RET != 0 ==> ENC_BYTES_ARE(buffer, major, AB, V))

LEAF_SERIALIZER(cbor_serialize_uint, INT_VALID(item) && item->type == CBOR_TYPE_UINT, 0, INT_ARGBYTES(item), INT_VALUE(item));
LEAF_SERIALIZER(cbor_serialize_negint, INT_VALID(item) && item->type == CBOR_TYPE_NEGINT, 1, INT_ARGBYTES(item), INT_VALUE(item));

/* floats at their stored width, NaN canonical; simple values in the shortest form */
#define FL_ARGBYTES(it) (FL_WIDTH(it) == CBOR_FLOAT_0 ? (item->metadata.float_ctrl_metadata.ctrl <= 23 ? 0u : 1u) \
                         : FL_WIDTH(it) == CBOR_FLOAT_16 ? 2u : FL_WIDTH(it) == CBOR_FLOAT_32 ? 4u : 8u)
size_t cbor_serialize_float_ctrl(const cbor_item_t *item, unsigned char *buffer, size_t buffer_size)
__CPROVER_requires(FLOAT_CTRL_VALID(item) && __CPROVER_w_ok(buffer, buffer_size))
__CPROVER_assigns(buffer_size > 0 : __CPROVER_object_upto(buffer, buffer_size))
__CPROVER_ensures(RET == (buffer_size >= 1 + FL_ARGBYTES(item) ? (size_t)(1 + FL_ARGBYTES(item)) : (size_t)0))
__CPROVER_ensures((RET != 0 && FL_WIDTH(item) == CBOR_FLOAT_0) ==>
                  ENC_BYTES_ARE(buffer, 7, FL_ARGBYTES(item), item->metadata.float_ctrl_metadata.ctrl))
__CPROVER_ensures((RET != 0 && FL_WIDTH(item) == CBOR_FLOAT_32) ==>
                  ENC_BYTES_ARE(buffer, 7, 4u, (spec_f32_is_nan(F32_AT(PAYLOAD(item))) ? (uint32_t)0x7FC00000u : F32_AT(PAYLOAD(item)))))
__CPROVER_ensures((RET != 0 && FL_WIDTH(item) == CBOR_FLOAT_64) ==>
                  ENC_BYTES_ARE(buffer, 7, 8u, (spec_f64_is_nan(F64_AT(PAYLOAD(item))) ? (uint64_t)0x7FF8000000000000ull : F64_AT(PAYLOAD(item)))))
__CPROVER_ensures((RET != 0 && FL_WIDTH(item) == CBOR_FLOAT_16) ==>
                  (buffer[0] == 0xF9 && (!spec_f32_is_nan(F32_AT(PAYLOAD(item))) || (buffer[1] == 0x7E && buffer[2] == 0x00))));

/* ------------------------------------------------------------------ composite serializers */
#define SER_GHOST_INIT                                                                                \
  (g_z.calls == 0 && g_z.sum == 0 && !g_z.ovf && !g_z.zero && g_z.ordered && g_z.contig)
/* common shape of a composite result: hdr bytes, the children in storage order in contiguous windows, an
 * optional break byte.  BRK is 1 for indefinite flavours.  NCH is the number of child calls. */
#define COMPOSITE_ENSURES(NCH, BRK)                                                                   \
  __CPROVER_ensures(RET <= buffer_size)                                                               \
  /* success: every child was written, in order, contiguously; the result is the exact total */       \
  __CPROVER_ensures(RET != 0 ==>                                                                      \
                    (g_z.calls == (NCH) && !g_z.ovf && !g_z.zero && g_z.ordered && g_z.contig &&      \
                     !__CPROVER_overflow_plus(g_zc.hdr, g_z.sum) && RET == g_zc.hdr + g_z.sum + (BRK) && \
                     ((NCH) == 0 || (g_z.first == buffer + g_zc.hdr && g_z.end == buffer + (RET - (BRK)))) && \
                     ((BRK) == 0 || buffer[RET - 1] == 0xFF)))                                        \
  /* failure: only because the window is too small for what was attempted so far (hence for the total), or  \
   * because a child's size is not representable */                                                   \
  __CPROVER_ensures(RET == 0 ==>                                                                      \
                    (g_z.zero || g_z.ovf || __CPROVER_overflow_plus(g_zc.hdr, g_z.sum) ||             \
                     buffer_size < g_zc.hdr + g_z.sum + (g_z.calls == (NCH) ? (size_t)(BRK) : (size_t)0) || \
                     g_zc.hdr + g_z.sum + (BRK) < (BRK)))                                             \
  __CPROVER_ensures(g_z.calls <= (NCH) && g_z.ordered && g_z.contig)

size_t cbor_serialize_array(const cbor_item_t *item, unsigned char *buffer, size_t buffer_size)
__CPROVER_requires(ARRAY_VALID(item) && __CPROVER_w_ok(buffer, buffer_size) && SER_GHOST_INIT)
__CPROVER_requires(g_zc.slots == AR_SLOTS(item) && g_zc.pairs == NULL && g_zc.n == AR_META(item).end_ptr &&
                   g_zc.hdr == (AR_META(item).type == _CBOR_METADATA_DEFINITE ? 1 + spec_shortest_argbytes(AR_META(item).end_ptr) : 1))
__CPROVER_assigns(g_z)
__CPROVER_assigns(buffer_size > 0 : __CPROVER_object_upto(buffer, buffer_size))
COMPOSITE_ENSURES(AR_META(item).end_ptr, (AR_META(item).type == _CBOR_METADATA_DEFINITE ? 0 : 1))
__CPROVER_ensures((RET != 0 && AR_META(item).type == _CBOR_METADATA_DEFINITE) ==>
                  ENC_BYTES_ARE(buffer, 4, spec_shortest_argbytes(AR_META(item).end_ptr), AR_META(item).end_ptr))
__CPROVER_ensures((RET != 0 && AR_META(item).type != _CBOR_METADATA_DEFINITE) ==> buffer[0] == 0x9F);

size_t cbor_serialize_map(const cbor_item_t *item, unsigned char *buffer, size_t buffer_size)
__CPROVER_requires(MAP_VALID(item) && __CPROVER_w_ok(buffer, buffer_size) && SER_GHOST_INIT)
__CPROVER_requires(g_zc.slots == NULL && g_zc.pairs == MP_PAIRS(item) && g_zc.n == MP_META(item).end_ptr &&
                   g_zc.hdr == (MP_META(item).type == _CBOR_METADATA_DEFINITE ? 1 + spec_shortest_argbytes(MP_META(item).end_ptr) : 1))
__CPROVER_assigns(g_z)
__CPROVER_assigns(buffer_size > 0 : __CPROVER_object_upto(buffer, buffer_size))
COMPOSITE_ENSURES(2 * MP_META(item).end_ptr, (MP_META(item).type == _CBOR_METADATA_DEFINITE ? 0 : 1))
__CPROVER_ensures((RET != 0 && MP_META(item).type == _CBOR_METADATA_DEFINITE) ==>
                  ENC_BYTES_ARE(buffer, 5, spec_shortest_argbytes(MP_META(item).end_ptr), MP_META(item).end_ptr))
__CPROVER_ensures((RET != 0 && MP_META(item).type != _CBOR_METADATA_DEFINITE) ==> buffer[0] == 0xBF);

/* a tag: shortest head of the tag number, then the one child; reading only (no reference is taken) */
size_t cbor_serialize_tag(const cbor_item_t *item, unsigned char *buffer, size_t buffer_size)
__CPROVER_requires(TAG_VALID(item) && __CPROVER_w_ok(buffer, buffer_size) && SER_GHOST_INIT)
__CPROVER_requires(g_zc.slots == (cbor_item_t **)&TG_META(item).tagged_item && g_zc.pairs == NULL && g_zc.n == 1 &&
                   g_zc.hdr == 1 + spec_shortest_argbytes(TG_META(item).value))
__CPROVER_assigns(g_z)
__CPROVER_assigns(buffer_size > 0 : __CPROVER_object_upto(buffer, buffer_size))
COMPOSITE_ENSURES(1, 0)
__CPROVER_ensures(RET != 0 ==> ENC_BYTES_ARE(buffer, 6, spec_shortest_argbytes(TG_META(item).value), TG_META(item).value));

/* strings: definite = shortest head of the length, then the bytes; indefinite = start byte, chunks, break */
#define DEF_STR_TOTAL_OK(len) (!__CPROVER_overflow_plus((size_t)(1 + spec_shortest_argbytes(len)), (size_t)(len)))
#define STRING_SERIALIZER(name, DEF_VALID, INDEF_VALID, META, major, startbyte)                       \
  size_t name(const cbor_item_t *item, unsigned char *buffer, size_t buffer_size)                     \
  __CPROVER_requires(ITEM_R(item) && ((DEF_VALID) || (INDEF_VALID)) && __CPROVER_w_ok(buffer, buffer_size)) \
  __CPROVER_requires(!g_s.valid || META.type != _CBOR_METADATA_DEFINITE || g_k >= META.length || item->data[g_k] == g_s.byte) \
  __CPROVER_requires(META.type == _CBOR_METADATA_DEFINITE ||                                          \
                     (SER_GHOST_INIT && g_zc.slots == CHUNKS(item)->chunks && g_zc.pairs == NULL &&   \
                      g_zc.n == CHUNKS(item)->chunk_count && g_zc.hdr == 1))                          \
  __CPROVER_assigns(g_z)                                                                              \
  __CPROVER_assigns(buffer_size > 0 : __CPROVER_object_upto(buffer, buffer_size))                     \
  __CPROVER_ensures(RET <= buffer_size)                                                               \
  /* definite: exactly head + bytes when it fits (no wrap-around), else 0 */                          \
  __CPROVER_ensures(META.type == _CBOR_METADATA_DEFINITE ==>                                          \
                    (RET == ((DEF_STR_TOTAL_OK(META.length) &&                                        \
                              buffer_size >= 1 + spec_shortest_argbytes(META.length) + META.length)   \
                                 ? 1 + spec_shortest_argbytes(META.length) + META.length : (size_t)0))) \
  __CPROVER_ensures((META.type == _CBOR_METADATA_DEFINITE && RET != 0) ==>                            \
                    ENC_BYTES_ARE(buffer, major, spec_shortest_argbytes(META.length), META.length))   \
  __CPROVER_ensures((META.type == _CBOR_METADATA_DEFINITE && RET != 0 && g_s.valid && g_k < META.length) ==> \
                    buffer[1 + spec_shortest_argbytes(META.length) + g_k] == g_s.byte) \
  /* indefinite */                                                                                    \
  __CPROVER_ensures((META.type != _CBOR_METADATA_DEFINITE && RET != 0) ==>                            \
                    (g_z.calls == g_zc.n && !g_z.ovf && !g_z.zero && g_z.ordered && g_z.contig &&     \
                     !__CPROVER_overflow_plus((size_t)1, g_z.sum) && RET == 1 + g_z.sum + 1 &&        \
                     buffer[0] == (startbyte) && buffer[RET - 1] == 0xFF &&                           \
                     (g_zc.n == 0 || (g_z.first == buffer + 1 && g_z.end == buffer + (RET - 1)))))    \
  __CPROVER_ensures((META.type != _CBOR_METADATA_DEFINITE && RET == 0) ==>                            \
                    (g_z.zero || g_z.ovf || __CPROVER_overflow_plus((size_t)1, g_z.sum) ||            \
                     buffer_size < 1 + g_z.sum + (g_z.calls == g_zc.n ? (size_t)1 : (size_t)0) ||     \
                     1 + g_z.sum + 1 < 1))

STRING_SERIALIZER(cbor_serialize_bytestring, BYTESTRING_DEF_VALID(item), BYTESTRING_INDEF_VALID(item), BS_META(item), 2, 0x5F);
STRING_SERIALIZER(cbor_serialize_string, STRING_DEF_VALID(item), STRING_INDEF_VALID(item), ST_META(item), 3, 0x7F);

#define SIZE_HDR(item)                                                                                \
  ((item)->type == CBOR_TYPE_ARRAY ? (AR_META(item).type == _CBOR_METADATA_DEFINITE ? 1 + spec_shortest_argbytes(AR_META(item).end_ptr) : 2) \
   : (item)->type == CBOR_TYPE_MAP ? (MP_META(item).type == _CBOR_METADATA_DEFINITE ? 1 + spec_shortest_argbytes(MP_META(item).end_ptr) : 2) \
   : (item)->type == CBOR_TYPE_TAG ? 1 + spec_shortest_argbytes(TG_META(item).value) : 2)

/* ------------------------------------------------------------------ the dispatcher */
/* per-type preconditions (the per-type serializer's own), result bounded by the window, frame = the window */
#define SER_HDR(item)                                                                                 \
  ((item)->type == CBOR_TYPE_ARRAY ? (AR_META(item).type == _CBOR_METADATA_DEFINITE ? 1 + spec_shortest_argbytes(AR_META(item).end_ptr) : 1) \
   : (item)->type == CBOR_TYPE_MAP ? (MP_META(item).type == _CBOR_METADATA_DEFINITE ? 1 + spec_shortest_argbytes(MP_META(item).end_ptr) : 1) \
   : (item)->type == CBOR_TYPE_TAG ? 1 + spec_shortest_argbytes(TG_META(item).value) : 1)
#define IS_COMPOSITE(item)                                                                            \
  ((item)->type == CBOR_TYPE_ARRAY || (item)->type == CBOR_TYPE_MAP || (item)->type == CBOR_TYPE_TAG || \
   ((item)->type == CBOR_TYPE_BYTESTRING && BS_META(item).type != _CBOR_METADATA_DEFINITE) ||          \
   ((item)->type == CBOR_TYPE_STRING && ST_META(item).type != _CBOR_METADATA_DEFINITE))
#define NODE_REQUIRES(item, HDR)                                                                      \
  __CPROVER_requires(ITEM_R(item) && (unsigned)item->type <= 7u && (!IS_COMPOSITE(item) || SER_GHOST_INIT)) \
  __CPROVER_requires(IS_INT(item) ==> INT_VALID(item))                                                \
  __CPROVER_requires(item->type == CBOR_TYPE_FLOAT_CTRL ==> FLOAT_CTRL_VALID(item))                   \
  __CPROVER_requires(item->type == CBOR_TYPE_BYTESTRING ==> (BYTESTRING_DEF_VALID(item) || BYTESTRING_INDEF_VALID(item))) \
  __CPROVER_requires(item->type == CBOR_TYPE_STRING ==> (STRING_DEF_VALID(item) || STRING_INDEF_VALID(item))) \
  __CPROVER_requires(item->type == CBOR_TYPE_ARRAY ==>                                                \
                     (ARRAY_VALID(item) && g_zc.slots == AR_SLOTS(item) && g_zc.pairs == NULL && g_zc.n == AR_META(item).end_ptr)) \
  __CPROVER_requires(item->type == CBOR_TYPE_MAP ==>                                                  \
                     (MAP_VALID(item) && g_zc.slots == NULL && g_zc.pairs == MP_PAIRS(item) && g_zc.n == MP_META(item).end_ptr)) \
  __CPROVER_requires(item->type == CBOR_TYPE_TAG ==>                                                  \
                     (TAG_VALID(item) && g_zc.slots == (cbor_item_t **)&TG_META(item).tagged_item && g_zc.pairs == NULL && g_zc.n == 1)) \
  __CPROVER_requires(((item->type == CBOR_TYPE_BYTESTRING && BS_META(item).type != _CBOR_METADATA_DEFINITE) || \
                      (item->type == CBOR_TYPE_STRING && ST_META(item).type != _CBOR_METADATA_DEFINITE)) ==> \
                     (g_zc.slots == CHUNKS(item)->chunks && g_zc.pairs == NULL && g_zc.n == CHUNKS(item)->chunk_count)) \
  __CPROVER_requires((item->type == CBOR_TYPE_ARRAY || item->type == CBOR_TYPE_MAP || item->type == CBOR_TYPE_TAG || \
                      (item->type == CBOR_TYPE_BYTESTRING && BS_META(item).type != _CBOR_METADATA_DEFINITE) || \
                      (item->type == CBOR_TYPE_STRING && ST_META(item).type != _CBOR_METADATA_DEFINITE)) ==> \
                     g_zc.hdr == HDR(item))

size_t cbor_serialize(const cbor_item_t *item, unsigned char *buffer, size_t buffer_size)
NODE_REQUIRES(item, SER_HDR)
__CPROVER_requires(__CPROVER_w_ok(buffer, buffer_size))
__CPROVER_requires(!g_s.valid || !((item->type == CBOR_TYPE_BYTESTRING && BS_META(item).type == _CBOR_METADATA_DEFINITE && g_k < BS_META(item).length) ||
                                   (item->type == CBOR_TYPE_STRING && ST_META(item).type == _CBOR_METADATA_DEFINITE && g_k < ST_META(item).length)) ||
                   item->data[g_k] == g_s.byte)
__CPROVER_assigns(g_z)
__CPROVER_assigns(buffer_size > 0 : __CPROVER_object_upto(buffer, buffer_size))
__CPROVER_ensures(RET <= buffer_size)
/* leaves and definite strings: exactly the per-type result (what cbor_serialize_alloc relies on) */
__CPROVER_ensures(IS_INT(item) ==> RET == (buffer_size >= 1 + INT_ARGBYTES(item) ? (size_t)(1 + INT_ARGBYTES(item)) : (size_t)0))
__CPROVER_ensures(item->type == CBOR_TYPE_FLOAT_CTRL ==> RET == (buffer_size >= 1 + FL_ARGBYTES(item) ? (size_t)(1 + FL_ARGBYTES(item)) : (size_t)0))
__CPROVER_ensures((item->type == CBOR_TYPE_BYTESTRING && BS_META(item).type == _CBOR_METADATA_DEFINITE) ==>
                  RET == ((DEF_STR_TOTAL_OK(BS_META(item).length) && buffer_size >= 1 + spec_shortest_argbytes(BS_META(item).length) + BS_META(item).length)
                              ? 1 + spec_shortest_argbytes(BS_META(item).length) + BS_META(item).length : (size_t)0))
__CPROVER_ensures((item->type == CBOR_TYPE_STRING && ST_META(item).type == _CBOR_METADATA_DEFINITE) ==>
                  RET == ((DEF_STR_TOTAL_OK(ST_META(item).length) && buffer_size >= 1 + spec_shortest_argbytes(ST_META(item).length) + ST_META(item).length)
                              ? 1 + spec_shortest_argbytes(ST_META(item).length) + ST_META(item).length : (size_t)0));

/* cbor_serialize_alloc (C06, C07): on failure *buffer is NULL and *buffer_size is 0 and nothing stays allocated;
 * on success a block of exactly the computed size holds exactly the serialization */
size_t cbor_serialize_alloc(const cbor_item_t *item, unsigned char **buffer, size_t *buffer_size)
NODE_REQUIRES(item, SIZE_HDR)
__CPROVER_requires(ALLOC_MODEL_BOUND && __CPROVER_w_ok(buffer, sizeof(*buffer)) &&
                   (buffer_size == NULL || __CPROVER_w_ok(buffer_size, sizeof(*buffer_size))))
__CPROVER_assigns(ALLOC_GHOSTS, g_z, *buffer)
__CPROVER_assigns(buffer_size != NULL : *buffer_size)
__CPROVER_ensures(RET == 0 ==> (*buffer == NULL && (buffer_size == NULL || *buffer_size == 0) && g_live == OLD(g_live)))
__CPROVER_ensures(RET == 0 || (__CPROVER_is_fresh(*buffer, RET) && (buffer_size == NULL || *buffer_size == RET) &&
                               g_last_req == RET && g_live == OLD(g_live) + 1))
__CPROVER_ensures(g_malloc_calls <= OLD(g_malloc_calls) + 1 && g_realloc_calls == OLD(g_realloc_calls) && g_free_calls == OLD(g_free_calls));

/* ------------------------------------------------------------------ serialized size (read-only) */
#define SIZE_TOTAL(hdr) ((g_z.zero || g_z.ovf || __CPROVER_overflow_plus((size_t)(hdr), g_z.sum)) ? (size_t)0 : (size_t)(hdr) + g_z.sum)
size_t cbor_serialized_size(const cbor_item_t *item)
__CPROVER_requires(ITEM_R(item) && (unsigned)item->type <= 7u && SER_GHOST_INIT)
__CPROVER_requires(IS_INT(item) ==> INT_VALID(item))
__CPROVER_requires(item->type == CBOR_TYPE_FLOAT_CTRL ==> FLOAT_CTRL_VALID(item))
__CPROVER_requires(item->type == CBOR_TYPE_BYTESTRING ==> (BYTESTRING_DEF_VALID(item) || BYTESTRING_INDEF_VALID(item)))
__CPROVER_requires(item->type == CBOR_TYPE_STRING ==> (STRING_DEF_VALID(item) || STRING_INDEF_VALID(item)))
__CPROVER_requires(item->type == CBOR_TYPE_ARRAY ==>
                   (ARRAY_VALID(item) && g_zc.slots == AR_SLOTS(item) && g_zc.pairs == NULL && g_zc.n == AR_META(item).end_ptr))
__CPROVER_requires(item->type == CBOR_TYPE_MAP ==>
                   (MAP_VALID(item) && g_zc.slots == NULL && g_zc.pairs == MP_PAIRS(item) && g_zc.n == MP_META(item).end_ptr))
__CPROVER_requires(item->type == CBOR_TYPE_TAG ==>
                   (TAG_VALID(item) && g_zc.slots == (cbor_item_t **)&TG_META(item).tagged_item && g_zc.pairs == NULL && g_zc.n == 1))
__CPROVER_requires(((item->type == CBOR_TYPE_BYTESTRING && BS_META(item).type != _CBOR_METADATA_DEFINITE) ||
                    (item->type == CBOR_TYPE_STRING && ST_META(item).type != _CBOR_METADATA_DEFINITE)) ==>
                   (g_zc.slots == CHUNKS(item)->chunks && g_zc.pairs == NULL && g_zc.n == CHUNKS(item)->chunk_count))
__CPROVER_requires((item->type == CBOR_TYPE_ARRAY || item->type == CBOR_TYPE_MAP || item->type == CBOR_TYPE_TAG ||
                    (item->type == CBOR_TYPE_BYTESTRING && BS_META(item).type != _CBOR_METADATA_DEFINITE) ||
                    (item->type == CBOR_TYPE_STRING && ST_META(item).type != _CBOR_METADATA_DEFINITE)) ==>
                   g_zc.hdr == SIZE_HDR(item))
__CPROVER_assigns(g_z)
/* leaves: exact */
__CPROVER_ensures(IS_INT(item) ==> RET == 1 + INT_ARGBYTES(item))
__CPROVER_ensures(item->type == CBOR_TYPE_FLOAT_CTRL ==> RET == 1 + FL_ARGBYTES(item))
/* definite strings: head + length, exact or 0 */
__CPROVER_ensures((item->type == CBOR_TYPE_BYTESTRING && BS_META(item).type == _CBOR_METADATA_DEFINITE) ==>
                  RET == (DEF_STR_TOTAL_OK(BS_META(item).length) ? 1 + spec_shortest_argbytes(BS_META(item).length) + BS_META(item).length : (size_t)0))
__CPROVER_ensures((item->type == CBOR_TYPE_STRING && ST_META(item).type == _CBOR_METADATA_DEFINITE) ==>
                  RET == (DEF_STR_TOTAL_OK(ST_META(item).length) ? 1 + spec_shortest_argbytes(ST_META(item).length) + ST_META(item).length : (size_t)0))
/* composites: header (+ break) + the sum over ALL children, exact, or 0 if that is not representable */
__CPROVER_ensures(((item->type == CBOR_TYPE_BYTESTRING && BS_META(item).type != _CBOR_METADATA_DEFINITE) ||
                   (item->type == CBOR_TYPE_STRING && ST_META(item).type != _CBOR_METADATA_DEFINITE)) ==>
                  (g_z.calls == g_zc.n && g_z.ordered && RET == SIZE_TOTAL(2)))
__CPROVER_ensures(item->type == CBOR_TYPE_ARRAY ==>
                  (g_z.calls == g_zc.n && g_z.ordered &&
                   RET == SIZE_TOTAL(AR_META(item).type == _CBOR_METADATA_DEFINITE ? 1 + spec_shortest_argbytes(AR_META(item).end_ptr) : 2)))
/* (the order in which a pair's key and value are sized is unspecified in C - both are arguments of one call -
 * and irrelevant for a sum: no order claim for maps) */
__CPROVER_ensures(item->type == CBOR_TYPE_MAP ==>
                  (g_z.calls == 2 * g_zc.n &&
                   RET == SIZE_TOTAL(MP_META(item).type == _CBOR_METADATA_DEFINITE ? 1 + spec_shortest_argbytes(MP_META(item).end_ptr) : 2)))
__CPROVER_ensures(item->type == CBOR_TYPE_TAG ==>
                  (g_z.calls == 1 && g_z.ordered && RET == SIZE_TOTAL(1 + spec_shortest_argbytes(TG_META(item).value))));
#endif
