"""Registry of proofs: one entry per (function under contract, harness).  See DESIGN 2.3.

props maps a property id to the obligation kinds of this proof that count for it:
  "all" | list of kinds from driver.classify():
  postcondition precondition assigns frees loop safety cbor_assert assertion dfcc_internal
Harness assertions whose text starts with "Cnn[,Cmm]:" are attributed by that tag regardless."""

MEMLIB = ["cbor/internal/memory_utils.c"]
ALLOC_STUBS = ["stubs/alloc_model.c", "stubs/allocators_def.c"]

SAFETY = ["safety", "cbor_assert", "precondition", "dfcc_internal"]
FUNC = ["postcondition", "loop"]
FRAME = ["assigns", "frees"]

TRUSTED_BASE = [
    "A3: CBMC 6.11 C semantics, object/offset memory model (objects <= 2^40 bytes in these proofs), SAT back ends, DFCC instrumentation",
    "A4: CBMC libc models (malloc, realloc, free, memcpy, strlen, isnan) and the ldexp model in stubs/ldexp_model.c",
    "A5: the configured allocator is any implementation satisfying stubs/alloc_model.c (fresh disjoint blocks of the requested size; realloc preserves the common prefix; free only invalidates its argument)",
    "A6: generated configuration.h/cbor_export.h, little-endian path, DEBUG flavour (CBOR_ASSERT active), restrict ignored; the compiler building the shipped library is not verified",
    "A7: spec/*.h are the definition of 'per RFC 8949 / RFC 3629 / IEEE 754'",
]

PROPERTY_META = {}

PROOFS = []


def P(**kw):
    kw.setdefault("tier", "quick")
    kw.setdefault("kind", "proof")
    PROOFS.append(kw)
    return kw


# ------------------------------------------------------------------------------------------------
# L0 arithmetic (C20)

P(name="highest_bit", props={"C20": FUNC + FRAME, "C01": SAFETY},
  lib=MEMLIB, stubs=ALLOC_STUBS, contracts=["contracts/memory_utils.h"],
  harness="harness/memutils.c", defines=["H_HIGHEST_BIT"], enforce="_cbor_highest_bit",
  unwindset="_cbor_highest_bit_wrapped_for_contract_checking.0:66",
  must_exist=[r"_cbor_highest_bit\.postcondition\.1", r"_cbor_highest_bit.*\.unwind\.0"],
  note="width-bounded loop unwound completely (65 iterations max for a 64-bit operand): complete, not a bound on inputs")

P(name="safe_to_multiply", props={"C20": FUNC + FRAME, "C01": SAFETY},
  lib=MEMLIB, stubs=ALLOC_STUBS, contracts=["contracts/memory_utils.h"],
  harness="harness/memutils.c", defines=["H_SAFE_TO_MULTIPLY"], enforce="_cbor_safe_to_multiply",
  replace=["_cbor_highest_bit"], replay="memutils",
  must_exist=[r"_cbor_safe_to_multiply\.postcondition\.3"])

P(name="safe_to_add", props={"C20": FUNC + FRAME, "C01": SAFETY},
  lib=MEMLIB, stubs=ALLOC_STUBS, contracts=["contracts/memory_utils.h"],
  harness="harness/memutils.c", defines=["H_SAFE_TO_ADD"], enforce="_cbor_safe_to_add", replay="memutils",
  must_exist=[r"_cbor_safe_to_add\.postcondition\.1"])

P(name="safe_signaling_add", props={"C20": FUNC + FRAME, "C01": SAFETY},
  lib=MEMLIB, stubs=ALLOC_STUBS, contracts=["contracts/memory_utils.h"],
  harness="harness/memutils.c", defines=["H_SIGNALING_ADD"], enforce="_cbor_safe_signaling_add",
  replace=["_cbor_safe_to_add"], replay="memutils",
  must_exist=[r"_cbor_safe_signaling_add\.postcondition\.2"])

P(name="alloc_multiple", props={"C20": FUNC + FRAME, "C06": FUNC + FRAME, "C13": FUNC + FRAME, "C01": SAFETY},
  lib=MEMLIB, stubs=ALLOC_STUBS, contracts=["contracts/memory_utils.h"],
  harness="harness/memutils.c", defines=["H_ALLOC_MULTIPLE"], enforce="_cbor_alloc_multiple",
  replace=["_cbor_safe_to_multiply"], backend="cvc5",
  must_exist=[r"_cbor_alloc_multiple\.postcondition\.6"])

P(name="realloc_multiple", props={"C20": [], "C12": [], "C06": [], "C13": [], "C01": SAFETY},
  lib=MEMLIB, stubs=ALLOC_STUBS, contracts=["contracts/memory_utils.h"],
  harness="harness/memutils.c", defines=["H_REALLOC_MULTIPLE"], enforce=None,
  replace=["_cbor_safe_to_multiply"], also_verified=["_cbor_realloc_multiple"],
  min_covers=4, backend="cadical")
