/* _cbor_stack_init / push / pop with a symbolic nesting limit L >= 1 (configuration.h generated with
 * CBOR_MAX_STACK_SIZE = verif_max_stack_size). */
#include "harness/mkitem.h"
#include "stubs/alloc_model.h"
#include "cbor/internal/stack.h"

void harness(void) {
  VERIF_ALLOC_RESET();
  verif_bind_allocator();
  g_k = 0; g_s.valid = false;
#ifdef CBOR_MAX_STACK_SIZE_IS_SYMBOLIC
  verif_max_stack_size = nondet_size();
  __CPROVER_assume(verif_max_stack_size >= 1);
#endif
  size_t L = CBOR_MAX_STACK_SIZE;
#if defined(H_STACK_INIT)
  struct _cbor_stack s = _cbor_stack_init();
  __CPROVER_assert(0, "COVER init returned");
#else
  struct _cbor_stack *st = mk_block(sizeof(*st));
  size_t in_size = nondet_size();
  __CPROVER_assume(in_size <= L);
  st->size = in_size;
  struct _cbor_stack_record *top = NULL;
  if (in_size > 0) top = mk_block(sizeof(*top));
  st->top = top;
#if defined(H_STACK_PUSH)
  cbor_item_t *item = nondet_ptr();
  size_t subitems = nondet_size();
  struct _cbor_stack_record *r = _cbor_stack_push(st, item, subitems);
  __CPROVER_assert(!(r == NULL && in_size == L), "COVER push refused at the limit");
  __CPROVER_assert(!(r == NULL && in_size < L), "COVER push refused by the allocator");
  __CPROVER_assert(!(r != NULL && in_size + 1 == L), "COVER push fills the last level");
  __CPROVER_assert(!(r != NULL && in_size == 0), "COVER push on an empty stack");
  __CPROVER_assert(!(L == 1), "COVER limit 1");
  __CPROVER_assert(!(L == 2048), "COVER default limit 2048");
  __CPROVER_assert(!(L > 100000), "COVER huge limit");
#elif defined(H_STACK_POP)
  __CPROVER_assume(in_size >= 1);
  _cbor_stack_pop(st);
  __CPROVER_assert(0, "COVER pop returned");
#endif
#endif
}
