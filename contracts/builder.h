/* Builder callbacks and _cbor_builder_append (C02 push-down automaton transitions, C05 flags, C06, C19, C04).
 * The decoder context invariant CTX_OK and the per-frame invariant FRAME_OK are DESIGN 3.5; the transitions are
 * those of the RFC 8949 well-formedness automaton (DESIGN appendix A), written from the RFC, not from the code. */
#ifndef VERIF_C_BUILDER_H
#define VERIF_C_BUILDER_H
#include "contracts/refcount.h"
#include "contracts/stack.h"
#include "cbor/internal/builder_callbacks.h"

struct verif_builder_ghost {
  size_t append_calls;   /* completed items handed upwards (calls of _cbor_builder_append by a callback / by itself) */
  cbor_item_t *appended; /* the item handed over by the most recent one */
  /* expectation set by a callback harness: what the completed item must look like WHEN it is handed over (it may
   * be released by the time the callback returns, so this is checked as a precondition at the call site) */
  bool expect;
  int exp_type;          /* major type */
  int exp_width;         /* int / float width code; for empty definite containers: 0 */
  uint64_t exp_bits;     /* integer value / simple value / float bit pattern */
};
extern struct verif_builder_ghost g_b;
/* Typed aliases of the top frame and its item, set by the harness and constant during the call.  The contracts
 * speak about the top frame through these (ctx->stack->top == g_bc.rec is required): naming the item as
 * ctx->stack->top->item everywhere made symbolic execution of the contract itself take minutes (three nested
 * loads per mention, hundreds of mentions). */
struct verif_builder_const {
  struct _cbor_stack_record *rec;
  cbor_item_t *item;
};
extern struct verif_builder_const g_bc;

#define CTXP(c) ((struct _cbor_decoder_context *)(c))
#define STK(c) (CTXP(c)->stack)
#define TOPREC(c) (g_bc.rec)
#define TOPITEM(c) (g_bc.item)
#define SUBITEMS(c) (g_bc.rec->subitems)

/* The decoder-context invariant, as a list of separate requires clauses (one big nested expression made
 * symbolic execution of the contract itself take minutes).  FRAME: what the frame on top of the stack looks
 * like while its item is under construction. */
#define TOP_IS(c, t) (STK(c)->size > 0 && TOPITEM(c)->type == (t))
#define CTX_REQUIRES(c)                                                                                \
  __CPROVER_requires(__CPROVER_rw_ok(CTXP(c), sizeof(struct _cbor_decoder_context)) && STACK_OK(STK(c)) && \
                     STK(c)->size <= CBOR_MAX_STACK_SIZE && !CTXP(c)->creation_failed && !CTXP(c)->syntax_error) \
  __CPROVER_requires(STK(c)->size == 0 ||                                                              \
                     (STK(c)->top == g_bc.rec && REC_OK(g_bc.rec) && g_bc.rec->item == g_bc.item &&    \
                      HEAP_BLOCK(TOPREC(c)) && ITEM_RW(TOPITEM(c)) && HEAP_BLOCK(TOPITEM(c)) &&        \
                      TOPITEM(c)->refcount == 1 &&                                                     \
                      (TOPITEM(c)->type == CBOR_TYPE_ARRAY || TOPITEM(c)->type == CBOR_TYPE_MAP ||     \
                       TOPITEM(c)->type == CBOR_TYPE_TAG || TOPITEM(c)->type == CBOR_TYPE_BYTESTRING || \
                       TOPITEM(c)->type == CBOR_TYPE_STRING)))                                         \
  __CPROVER_requires(!TOP_IS(c, CBOR_TYPE_ARRAY) ||                                                    \
                     (ARRAY_VALID(TOPITEM(c)) &&                                                       \
                      (AR_META(TOPITEM(c)).type == _CBOR_METADATA_DEFINITE                             \
                           ? (SUBITEMS(c) >= 1 && SUBITEMS(c) <= AR_META(TOPITEM(c)).allocated &&      \
                              AR_META(TOPITEM(c)).end_ptr + SUBITEMS(c) == AR_META(TOPITEM(c)).allocated) \
                           : (SUBITEMS(c) == 0 && (AR_META(TOPITEM(c)).allocated == 0 || HEAP_BLOCK(TOPITEM(c)->data)))))) \
  __CPROVER_requires(!TOP_IS(c, CBOR_TYPE_MAP) ||                                                      \
                     (MAP_VALID(TOPITEM(c)) &&                                                         \
                      (MP_META(TOPITEM(c)).type == _CBOR_METADATA_DEFINITE                             \
                           ? (SUBITEMS(c) >= 1 && SUBITEMS(c) <= 2 * MP_META(TOPITEM(c)).allocated &&  \
                              2 * MP_META(TOPITEM(c)).end_ptr - (SUBITEMS(c) & 1) + SUBITEMS(c) == 2 * MP_META(TOPITEM(c)).allocated) \
                           : (SUBITEMS(c) <= 1 && (MP_META(TOPITEM(c)).allocated == 0 || HEAP_BLOCK(TOPITEM(c)->data)))) && \
                      ((SUBITEMS(c) & 1) == 0 || MP_META(TOPITEM(c)).end_ptr >= 1)))                   \
  __CPROVER_requires(!TOP_IS(c, CBOR_TYPE_TAG) || (TAG_VALID(TOPITEM(c)) && SUBITEMS(c) == 1))         \
  __CPROVER_requires(!TOP_IS(c, CBOR_TYPE_BYTESTRING) ||                                               \
                     (BYTESTRING_INDEF_VALID(TOPITEM(c)) && SUBITEMS(c) == 0 &&                        \
                      (CHUNKS(TOPITEM(c))->chunk_capacity == 0 || HEAP_BLOCK(CHUNKS(TOPITEM(c))->chunks)))) \
  __CPROVER_requires(!TOP_IS(c, CBOR_TYPE_STRING) ||                                                   \
                     (STRING_INDEF_VALID(TOPITEM(c)) && SUBITEMS(c) == 0 &&                            \
                      (CHUNKS(TOPITEM(c))->chunk_capacity == 0 || HEAP_BLOCK(CHUNKS(TOPITEM(c))->chunks))))

#define APPENDED_AS_EXPECTED(item)                                                                     \
  (!g_b.expect ||                                                                                      \
   ((int)(item)->type == g_b.exp_type &&                                                               \
    (!IS_INT(item) ||                                                                                  \
     ((int)INT_WIDTH(item) == g_b.exp_width && (item)->data == PAYLOAD(item) &&                        \
      (g_b.exp_width == 0 ? (uint64_t)*PAYLOAD(item) == g_b.exp_bits                                   \
       : g_b.exp_width == 1 ? (uint64_t)*(uint16_t *)PAYLOAD(item) == g_b.exp_bits                     \
       : g_b.exp_width == 2 ? (uint64_t)*(uint32_t *)PAYLOAD(item) == g_b.exp_bits                     \
                            : *(uint64_t *)PAYLOAD(item) == g_b.exp_bits))) &&                         \
    ((item)->type != CBOR_TYPE_FLOAT_CTRL ||                                                           \
     ((int)FL_WIDTH(item) == g_b.exp_width &&                                                          \
      (g_b.exp_width == 0 ? (uint64_t)(item)->metadata.float_ctrl_metadata.ctrl == g_b.exp_bits        \
       : g_b.exp_width == 3 ? F64_AT(PAYLOAD(item)) == g_b.exp_bits                                    \
                            : (uint64_t)F32_AT(PAYLOAD(item)) == g_b.exp_bits))) &&                    \
    ((item)->type != CBOR_TYPE_ARRAY ||                                                                \
     (AR_META(item).type == _CBOR_METADATA_DEFINITE && AR_META(item).allocated == 0 && AR_META(item).end_ptr == 0)) && \
    ((item)->type != CBOR_TYPE_MAP ||                                                                  \
     (MP_META(item).type == _CBOR_METADATA_DEFINITE && MP_META(item).allocated == 0 && MP_META(item).end_ptr == 0))))

/* ------------------------------------------------------------------ _cbor_builder_append */
/* induction hypothesis for the recursive "hand the completed container upwards" call */
void _cbor_builder_append__child(cbor_item_t *item, struct _cbor_decoder_context *ctx)
__CPROVER_requires(__CPROVER_rw_ok(ctx, sizeof(*ctx)) && g_b.append_calls < SIZE_MAX / 2)
__CPROVER_assigns(g_b, ctx->creation_failed, ctx->syntax_error, ctx->root)
__CPROVER_ensures(g_b.append_calls == OLD(g_b.append_calls) + 1 && g_b.appended == item);

#define APPEND_FRAME(item, ctx)                                                                        \
  __CPROVER_assigns(ALLOC_GHOSTS, g_b, g_d, *ctx, *STK(ctx), __CPROVER_object_whole(item))             \
  __CPROVER_assigns(HAS_DATA_BLOCK(item) && item->data != NULL : __CPROVER_object_whole(item->data))   \
  __CPROVER_assigns(STK(ctx)->size > 0 : *TOPREC(ctx), *TOPITEM(ctx))                                  \
  __CPROVER_assigns(STK(ctx)->size > 0 && HAS_DATA_BLOCK(TOPITEM(ctx)) && TOPITEM(ctx)->data != NULL : __CPROVER_object_whole(TOPITEM(ctx)->data)) \
  __CPROVER_frees(STK(ctx)->size > 0 : TOPREC(ctx))                                                    \
  __CPROVER_frees(STK(ctx)->size > 0 && (TOPITEM(ctx)->type == CBOR_TYPE_ARRAY || TOPITEM(ctx)->type == CBOR_TYPE_MAP) : TOPITEM(ctx)->data) \
  __CPROVER_frees(item)                                                                                \
  __CPROVER_frees(HAS_DATA_BLOCK(item) : item->data)

void _cbor_builder_append(cbor_item_t *item, struct _cbor_decoder_context *ctx)
CTX_REQUIRES(ctx)
__CPROVER_requires(ALLOC_MODEL_BOUND && ITEM_RW(item) && HEAP_BLOCK(item) && item->refcount == 1 &&
                   DATA_FREEABLE(item) && !IS_CHUNKED(item) && g_b.append_calls < SIZE_MAX / 2)
__CPROVER_requires(STK(ctx)->size == 0 || (item != TOPITEM(ctx)))
__CPROVER_requires(APPENDED_AS_EXPECTED(item))
APPEND_FRAME(item, ctx)
/* empty stack: the item is the result */
__CPROVER_ensures(OLD(STK(ctx)->size) == 0 ==>
                  (ctx->root == item && STK(ctx)->size == 0 && !ctx->creation_failed && !ctx->syntax_error &&
                   item->refcount == 1 && g_b.append_calls == OLD(g_b.append_calls) && g_live == OLD(g_live)))
/* never more than one level closed here; deeper closing is the recursive call's business */
__CPROVER_ensures(STK(ctx)->size == OLD(STK(ctx)->size) || STK(ctx)->size + 1 == OLD(STK(ctx)->size))
__CPROVER_ensures(g_b.append_calls <= OLD(g_b.append_calls) + 1)
/* a level is closed exactly when its container became complete, and then the container is handed upwards */
__CPROVER_ensures(STK(ctx)->size + 1 == OLD(STK(ctx)->size) ==>
                  (g_b.append_calls == OLD(g_b.append_calls) + 1 && g_b.appended == OLD(TOPITEM(ctx)) &&
                   g_free_calls == OLD(g_free_calls) + 1))
/* flags are raised here only without closing a level (what the upward hand-over does to them is its business) */
__CPROVER_ensures((OLD(STK(ctx)->size) > 0 && STK(ctx)->size == OLD(STK(ctx)->size)) ==> g_b.append_calls == OLD(g_b.append_calls));
#endif
