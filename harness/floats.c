/* C15: floating point values keep their exact bits.  All bit patterns symbolic (CBMC float-bv). */
#include <stdlib.h>
#include <math.h>
#include "cbor.h"
#include "cbor/internal/loaders.h"
#include "spec/head.h"

uint16_t nondet_u16(void);
uint32_t nondet_u32(void);
uint64_t nondet_u64(void);

#if defined(H_HALF_ROUNDTRIP)
/* every one of the 65536 half patterns: decode with the real loader, re-encode with the real encoder */
void harness(void) {
  uint16_t in_h = nondet_u16();
  unsigned char src[2] = {(unsigned char)(in_h >> 8), (unsigned char)in_h};
  float f = _cbor_load_half(src);
  union { float f; uint32_t u; } x; x.f = f;
  uint32_t expect = spec_half_to_float_bits(in_h);
  __CPROVER_assert(spec_f32_is_nan(expect) ? spec_f32_is_nan(x.u) : x.u == expect,
                   "C15: half pattern decodes to exactly the IEEE-754 value it denotes (NaN to NaN)");
  unsigned char out[3];
  size_t w = cbor_encode_half(f, out, 3);
  __CPROVER_assert(w == 3 && out[0] == 0xF9, "C15: half encoder produces three bytes");
  if (spec_f32_is_nan(expect))
    __CPROVER_assert(out[1] == 0x7E && out[2] == 0x00, "C15: any half NaN re-encodes as the canonical quiet NaN 7E00");
  else
    __CPROVER_assert(out[1] == src[0] && out[2] == src[1], "C15: re-encoding a decoded half reproduces the original bytes");
  __CPROVER_assert(!((in_h & 0x7c00) == 0 && (in_h & 0x3ff) != 0), "COVER subnormal half");
  __CPROVER_assert(!((in_h & 0x7c00) == 0x7c00 && (in_h & 0x3ff) != 0), "COVER half NaN");
  __CPROVER_assert(!((in_h & 0x7fff) == 0x7c00), "COVER half infinity");
  __CPROVER_assert(!(in_h == 0x8000), "COVER negative zero");
  __CPROVER_assert(!((in_h & 0x7c00) == 0x3c00), "COVER normal half");
}
#elif defined(H_SINGLE_ROUNDTRIP)
void harness(void) {
  uint32_t in_bits = nondet_u32();
  unsigned char src[4] = {in_bits >> 24, in_bits >> 16, in_bits >> 8, in_bits};
  float f = _cbor_load_float(src);
  union { float f; uint32_t u; } x; x.f = f;
  __CPROVER_assert(x.u == in_bits, "C15: single pattern decodes to identical bits");
  unsigned char out[5];
  size_t w = cbor_encode_single(f, out, 5);
  __CPROVER_assert(w == 5 && out[0] == 0xFA, "C15: single encoder produces five bytes");
  uint32_t o = ((uint32_t)out[1] << 24) | ((uint32_t)out[2] << 16) | ((uint32_t)out[3] << 8) | out[4];
  __CPROVER_assert(o == (spec_f32_is_nan(in_bits) ? 0x7FC00000u : in_bits),
                   "C15: re-encoding reproduces the original bytes, NaN as canonical quiet NaN");
  __CPROVER_assert(!spec_f32_is_nan(in_bits), "COVER single NaN");
  __CPROVER_assert(spec_f32_is_nan(in_bits), "COVER single non-NaN");
}
#elif defined(H_DOUBLE_ROUNDTRIP)
void harness(void) {
  uint64_t in_bits = nondet_u64();
  unsigned char src[8] = {in_bits >> 56, in_bits >> 48, in_bits >> 40, in_bits >> 32,
                          in_bits >> 24, in_bits >> 16, in_bits >> 8, in_bits};
  double f = _cbor_load_double(src);
  union { double f; uint64_t u; } x; x.f = f;
  __CPROVER_assert(x.u == in_bits, "C15: double pattern decodes to identical bits");
  unsigned char out[9];
  size_t w = cbor_encode_double(f, out, 9);
  __CPROVER_assert(w == 9 && out[0] == 0xFB, "C15: double encoder produces nine bytes");
  uint64_t o = 0;
  for (int i = 1; i <= 8; i++) o = (o << 8) | out[i];
  __CPROVER_assert(o == (spec_f64_is_nan(in_bits) ? 0x7FF8000000000000ull : in_bits),
                   "C15: re-encoding reproduces the original bytes, NaN as canonical quiet NaN");
  __CPROVER_assert(!spec_f64_is_nan(in_bits), "COVER double NaN");
  __CPROVER_assert(spec_f64_is_nan(in_bits), "COVER double non-NaN");
}
#endif
