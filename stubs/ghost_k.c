#include "contracts/valid.h"
size_t g_k; /* ghost index: "the element at an arbitrary position" */
struct verif_snap_ghost g_s;
