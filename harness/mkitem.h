/* Symbolic shallow-valid items for the harnesses: every field that the validity predicate leaves open
 * is nondeterministic (type flavour, width, sizes, counts, reference count, contents, child pointers). */
#ifndef VERIF_MKITEM_H
#define VERIF_MKITEM_H
#include <stdlib.h>
#include "cbor.h"
#include "contracts/valid.h"

size_t nondet_size(void);
unsigned nondet_uint(void);
bool nondet_bool(void);
void *nondet_ptr(void);

static inline void *mk_block(size_t n) {
  void *p = malloc(n);
  __CPROVER_assume(p != NULL);
  return p;
}

static inline cbor_item_t *mk_hdr(size_t tail) {
  cbor_item_t *it = mk_block(sizeof(cbor_item_t) + tail);
  __CPROVER_assume(it->refcount >= 1 && it->refcount < SIZE_MAX / 2);
  return it;
}

static inline cbor_item_t *mk_int(void) {
  unsigned w = nondet_uint();
  __CPROVER_assume(w <= 3);
  cbor_item_t *it = mk_hdr((size_t)1 << w);
  it->type = nondet_bool() ? CBOR_TYPE_UINT : CBOR_TYPE_NEGINT;
  it->metadata.int_metadata.width = (cbor_int_width)w;
  it->data = (unsigned char *)it + sizeof(cbor_item_t);
  return it;
}

static inline cbor_item_t *mk_float_ctrl(void) {
  unsigned w = nondet_uint();
  __CPROVER_assume(w <= 3);
  cbor_item_t *it = mk_hdr(w == 0 ? 0 : w == 3 ? 8 : 4);
  it->type = CBOR_TYPE_FLOAT_CTRL;
  it->metadata.float_ctrl_metadata.width = (cbor_float_width)w;
  it->data = w == 0 ? nondet_ptr() : (unsigned char *)it + sizeof(cbor_item_t);
  return it;
}

static inline cbor_item_t *mk_def_bytestring(void) {
  cbor_item_t *it = mk_hdr(0);
  it->type = CBOR_TYPE_BYTESTRING;
  it->metadata.bytestring_metadata.type = _CBOR_METADATA_DEFINITE;
  size_t n = nondet_size();
  __CPROVER_assume(n <= VERIF_MAXOBJ);
  it->metadata.bytestring_metadata.length = n;
  it->data = (n == 0 && nondet_bool()) ? NULL : mk_block(n);
  return it;
}

static inline cbor_item_t *mk_def_string(void) {
  cbor_item_t *it = mk_hdr(0);
  it->type = CBOR_TYPE_STRING;
  it->metadata.string_metadata.type = _CBOR_METADATA_DEFINITE;
  size_t n = nondet_size();
  __CPROVER_assume(n <= VERIF_MAXOBJ);
  it->metadata.string_metadata.length = n;
  it->data = (n == 0 && nondet_bool()) ? NULL : mk_block(n);
  return it;
}

static inline void mk_chunked_data(cbor_item_t *it) {
  struct cbor_indefinite_string_data *d = mk_block(sizeof(*d));
  __CPROVER_assume(d->chunk_count <= d->chunk_capacity && d->chunk_capacity <= VERIF_MAXCNT);
  d->chunks = d->chunk_capacity == 0 ? NULL : mk_block(d->chunk_capacity * sizeof(cbor_item_t *));
  it->data = (unsigned char *)d;
}

static inline cbor_item_t *mk_indef_bytestring(void) {
  cbor_item_t *it = mk_hdr(0);
  it->type = CBOR_TYPE_BYTESTRING;
  it->metadata.bytestring_metadata.type = _CBOR_METADATA_INDEFINITE;
  mk_chunked_data(it);
  return it;
}

static inline cbor_item_t *mk_indef_string(void) {
  cbor_item_t *it = mk_hdr(0);
  it->type = CBOR_TYPE_STRING;
  it->metadata.string_metadata.type = _CBOR_METADATA_INDEFINITE;
  mk_chunked_data(it);
  return it;
}

static inline cbor_item_t *mk_bytestring(void) { return nondet_bool() ? mk_def_bytestring() : mk_indef_bytestring(); }
static inline cbor_item_t *mk_string(void) { return nondet_bool() ? mk_def_string() : mk_indef_string(); }

/* definite or indefinite array with symbolic capacity and fill; slots hold arbitrary pointers */
static inline cbor_item_t *mk_array(void) {
  cbor_item_t *it = mk_hdr(0);
  it->type = CBOR_TYPE_ARRAY;
  it->metadata.array_metadata.type = nondet_bool() ? _CBOR_METADATA_DEFINITE : _CBOR_METADATA_INDEFINITE;
  size_t a = nondet_size(), e = nondet_size();
  __CPROVER_assume(e <= a && a <= VERIF_MAXCNT);
  it->metadata.array_metadata.allocated = a;
  it->metadata.array_metadata.end_ptr = e;
  if (a == 0 && it->metadata.array_metadata.type == _CBOR_METADATA_INDEFINITE)
    it->data = NULL;
  else
    it->data = mk_block(a * sizeof(cbor_item_t *));
  return it;
}

static inline cbor_item_t *mk_map(void) {
  cbor_item_t *it = mk_hdr(0);
  it->type = CBOR_TYPE_MAP;
  it->metadata.map_metadata.type = nondet_bool() ? _CBOR_METADATA_DEFINITE : _CBOR_METADATA_INDEFINITE;
  size_t a = nondet_size(), e = nondet_size();
  __CPROVER_assume(e <= a && a <= VERIF_MAXCNT);
  it->metadata.map_metadata.allocated = a;
  it->metadata.map_metadata.end_ptr = e;
  if (a == 0 && it->metadata.map_metadata.type == _CBOR_METADATA_INDEFINITE)
    it->data = NULL;
  else
    it->data = mk_block(a * sizeof(struct cbor_pair));
  return it;
}

static inline cbor_item_t *mk_tag(void) {
  cbor_item_t *it = mk_hdr(0);
  it->type = CBOR_TYPE_TAG;
  it->data = nondet_ptr();
  return it;
}

/* an item of any of the eight major types */
static inline cbor_item_t *mk_any(void) {
  unsigned k = nondet_uint();
  __CPROVER_assume(k < 8);
  switch (k) {
    case 0: return mk_int();
    case 1: return mk_float_ctrl();
    case 2: return mk_bytestring();
    case 3: return mk_string();
    case 4: return mk_array();
    case 5: return mk_map();
    case 6: return mk_tag();
    default: return mk_int();
  }
}

/* a leaf usable as a child / pushee: any node kind, header only is touched by the operations under proof */
static inline cbor_item_t *mk_leaf(void) { return nondet_bool() ? mk_int() : mk_float_ctrl(); }

#endif
