/* _cbor_builder_append and the 24 builder callbacks: one push-down-automaton transition each.
 * The decoder context is symbolic: any stack depth <= L, a top frame of the kind selected by -DTOP_*,
 * satisfying the frame invariant (contracts/builder.h FRAME_OK). */
#include "harness/mkitem.h"
#include "stubs/alloc_model.h"
#include "contracts/builder.h"
#include "spec/utf8.h"

void _cbor_builder_append__top(cbor_item_t *item, struct _cbor_decoder_context *ctx);
uint64_t nondet_u64(void);
float nondet_float(void);
double nondet_double(void);

static struct _cbor_decoder_context *mk_ctx(void) {
  struct _cbor_decoder_context *ctx = mk_block(sizeof(*ctx));
  struct _cbor_stack *st = mk_block(sizeof(*st));
  ctx->stack = st;
  ctx->creation_failed = false;
  ctx->syntax_error = false;
  size_t sz = nondet_size();
  __CPROVER_assume(sz <= CBOR_MAX_STACK_SIZE);
  st->size = sz;
  st->top = NULL;
#if defined(TOP_EMPTY)
  __CPROVER_assume(sz == 0);
#else
#if defined(TOP_ANY) || defined(TOP_SIMPLE)
  if (sz == 0) return ctx; /* includes the empty stack */
#endif
  __CPROVER_assume(sz >= 1);
  struct _cbor_stack_record *rec = mk_block(sizeof(*rec));
  st->top = rec;
  cbor_item_t *it;
#if defined(TOP_ANY)
  /* any kind of open item */
  unsigned kind = nondet_uint();
  __CPROVER_assume(kind < 5);
  if (kind == 0) {
    it = mk_array();
    if (it->metadata.array_metadata.type == _CBOR_METADATA_DEFINITE) {
      __CPROVER_assume(it->metadata.array_metadata.end_ptr < it->metadata.array_metadata.allocated);
      rec->subitems = it->metadata.array_metadata.allocated - it->metadata.array_metadata.end_ptr;
    } else {
      rec->subitems = 0;
    }
  } else if (kind == 1) {
    it = mk_tag();
    it->metadata.tag_metadata.tagged_item = NULL;
    rec->subitems = 1;
  } else if (kind == 2) {
    it = mk_indef_bytestring();
    rec->subitems = 0;
  } else if (kind == 3) {
    it = mk_indef_string();
    rec->subitems = 0;
  } else {
    it = mk_map();
    size_t e = it->metadata.map_metadata.end_ptr, a = it->metadata.map_metadata.allocated;
    bool odd = nondet_bool();
    __CPROVER_assume(!odd || e >= 1);
    if (it->metadata.map_metadata.type == _CBOR_METADATA_DEFINITE) {
      rec->subitems = 2 * (a - e) + (odd ? 1 : 0);
      __CPROVER_assume(rec->subitems >= 1);
    } else {
      rec->subitems = odd ? 1 : 0;
    }
  }
#elif defined(TOP_DEF_ARRAY) || defined(TOP_INDEF_ARRAY)
  it = mk_array();
#if defined(TOP_DEF_ARRAY)
  /* assigned, not assumed: symex then knows the flavour as a constant and prunes the other branch */
  it->metadata.array_metadata.type = _CBOR_METADATA_DEFINITE;
  if (it->data == NULL) it->data = mk_block(0);
  __CPROVER_assume(it->metadata.array_metadata.end_ptr < it->metadata.array_metadata.allocated);
  rec->subitems = it->metadata.array_metadata.allocated - it->metadata.array_metadata.end_ptr;
#else
  __CPROVER_assume(it->metadata.array_metadata.type == _CBOR_METADATA_INDEFINITE);
  it->metadata.array_metadata.type = _CBOR_METADATA_INDEFINITE;
  rec->subitems = 0;
#endif
#elif defined(TOP_MAP)
  it = mk_map();
  {
    size_t e = it->metadata.map_metadata.end_ptr, a = it->metadata.map_metadata.allocated;
    bool odd = nondet_bool(); /* a key without its value yet */
    __CPROVER_assume(!odd || e >= 1);
    if (it->metadata.map_metadata.type == _CBOR_METADATA_DEFINITE) {
      rec->subitems = 2 * (a - e) + (odd ? 1 : 0);
      __CPROVER_assume(rec->subitems >= 1);
    } else {
      rec->subitems = odd ? 1 : 0;
    }
  }
#elif defined(TOP_TAG) || defined(TOP_SIMPLE)
  /* TOP_SIMPLE (leaf / opener callbacks): they never look at the open item themselves - what happens to it is the
   * business of _cbor_builder_append, represented by its contract - so the cheapest kind of open item is used */
  it = mk_tag();
  it->metadata.tag_metadata.tagged_item = NULL;
  rec->subitems = 1;
#elif defined(TOP_BYTESTRING)
  it = mk_indef_bytestring();
  rec->subitems = 0;
#elif defined(TOP_STRING)
  it = mk_indef_string();
  rec->subitems = 0;
#endif
  it->refcount = 1;
  rec->item = it;
  /* the frame below (what remains on top after a pop): absent for depth 1, else some open item */
  if (sz >= 2) {
    struct _cbor_stack_record *low = mk_block(sizeof(*low));
    cbor_item_t *lit = mk_tag();
    lit->refcount = 1;
    lit->metadata.tag_metadata.tagged_item = NULL;
    low->item = lit; low->subitems = 1; low->lower = nondet_ptr();
    rec->lower = low;
  } else {
    rec->lower = NULL;
  }
#endif
  return ctx;
}

void harness(void) {
  VERIF_ALLOC_RESET();
  verif_bind_allocator();
  g_k = nondet_size();
  __CPROVER_assume(g_k <= VERIF_MAXCNT);
  g_s.valid = false;
  g_b.append_calls = 0; g_b.appended = NULL; g_b.expect = false; g_b.exp_type = 0; g_b.exp_width = 0; g_b.exp_bits = 0;
  g_b.exp_src = NULL; g_b.exp_byte = 0;
  g_b.expect_push = false; g_b.push_type = 0; g_b.push_flavour = 0; g_b.push_arg = 0; g_b.push_subitems = 0;
  g_d.calls = 0; g_d.hits = 0; g_d.last = NULL;
  g_u_src = NULL; g_u_len = 0; g_u_calls = 0; g_u_count = 0; g_u_state = 0;
  struct _cbor_decoder_context *ctx = mk_ctx();
  struct _cbor_stack *st = ctx->stack;
  size_t size0 = st->size;
  struct _cbor_stack_record *rec0 = st->top;
  cbor_item_t *top0 = size0 ? rec0->item : NULL;
  size_t sub0 = size0 ? rec0->subitems : 0;
  struct _cbor_stack_record *lower0 = size0 ? rec0->lower : NULL;
  size_t live0 = g_live;
  g_bc.rec = rec0; g_bc.item = top0;

#if defined(H_APPEND)
  cbor_item_t *item = mk_elem();
  item->refcount = 1;
  __CPROVER_assume(item->type != CBOR_TYPE_BYTESTRING && item->type != CBOR_TYPE_STRING);
#if defined(TOP_DEF_ARRAY) || defined(TOP_INDEF_ARRAY)
  size_t end0 = top0->metadata.array_metadata.end_ptr;
  g_s.valid = true;
  if (g_k < end0) g_s.item = ((cbor_item_t **)top0->data)[g_k];
#elif defined(TOP_MAP)
  size_t end0 = top0->metadata.map_metadata.end_ptr;
  cbor_item_t *lastkey0 = end0 ? ((struct cbor_pair *)top0->data)[end0 - 1].key : NULL;
  unsigned char *mapdata0 = top0->data;
  size_t mapalloc0 = top0->metadata.map_metadata.allocated;
#endif
  _cbor_builder_append__top(item, ctx);

#if defined(TOP_EMPTY)
  __CPROVER_assert(ctx->root == item && item->refcount == 1 && !ctx->creation_failed && !ctx->syntax_error,
                   "C02: with no item open the completed item is the result, owned solely by the caller");
  __CPROVER_assert(0, "COVER root set");
#elif defined(TOP_DEF_ARRAY)
  if (g_b.append_calls == 0)
    __CPROVER_assert(!ctx->creation_failed && !ctx->syntax_error, "C02,C05: a member of a definite array with room raises no flag");
  __CPROVER_assert(top0->metadata.array_metadata.end_ptr == end0 + 1 && ((cbor_item_t **)top0->data)[end0] == item,
                   "C02: the member is stored in the next slot (element order)");
  __CPROVER_assert(item->refcount == 1, "C02,C04: the array is the member's only owner afterwards");
  if (g_k < end0) __CPROVER_assert(((cbor_item_t **)top0->data)[g_k] == g_s.item, "C02: earlier members untouched");
  if (sub0 > 1)
    __CPROVER_assert(st->size == size0 && st->top == rec0 && rec0->subitems == sub0 - 1 && g_b.append_calls == 0,
                     "C02: definite countdown, the array stays open while members are due");
  else
    __CPROVER_assert(st->size == size0 - 1 && st->top == lower0 && g_b.append_calls == 1 && g_b.appended == top0,
                     "C02: the last due member closes the array, which is handed to its parent, completely filled");
  __CPROVER_assert(!(sub0 > 1), "COVER array stays open");
  __CPROVER_assert(!(sub0 == 1), "COVER array closes");
#elif defined(TOP_INDEF_ARRAY)
  __CPROVER_assert(!ctx->syntax_error && st->size == size0 && st->top == rec0 && g_b.append_calls == 0,
                   "C02: an indefinite array stays open until its break");
  if (!ctx->creation_failed) {
    __CPROVER_assert(top0->metadata.array_metadata.end_ptr == end0 + 1 &&
                     ((cbor_item_t **)top0->data)[end0] == item && item->refcount == 1,
                     "C02,C04: the member is appended and owned by the array alone");
    if (g_k < end0) __CPROVER_assert(((cbor_item_t **)top0->data)[g_k] == g_s.item, "C02: earlier members untouched");
  } else {
    __CPROVER_assert(g_refused, "C05,C06: creation_failed only after the allocator refused a request");
    __CPROVER_assert(top0->metadata.array_metadata.end_ptr == end0, "C06: a refused append leaves the array as it was");
    __CPROVER_assert(g_free_calls >= 1, "C06,C04: the rejected member is released");
  }
  __CPROVER_assert(ctx->creation_failed, "COVER appended");
  __CPROVER_assert(!ctx->creation_failed, "COVER growth refused");
#elif defined(TOP_MAP)
  bool def = top0->metadata.map_metadata.type == _CBOR_METADATA_DEFINITE;
  if (g_b.append_calls == 0) __CPROVER_assert(!ctx->syntax_error, "C02,C05: map members raise no syntax error");
  if (sub0 & 1) {
    if (g_b.append_calls == 0) __CPROVER_assert(!ctx->creation_failed, "C02: adding the value of a pending key cannot fail");
    __CPROVER_assert(top0->metadata.map_metadata.end_ptr == end0 && ((struct cbor_pair *)top0->data)[end0 - 1].value == item &&
                     ((struct cbor_pair *)top0->data)[end0 - 1].key == lastkey0 && item->refcount == 1,
                     "C02,C04: odd position: the item becomes the value of the last key (pair order)");
  } else if (!ctx->creation_failed) {
    __CPROVER_assert(top0->metadata.map_metadata.end_ptr == end0 + 1 && ((struct cbor_pair *)top0->data)[end0].key == item &&
                     ((struct cbor_pair *)top0->data)[end0].value == NULL && item->refcount == 1,
                     "C02,C04: even position: the item becomes the key of a new pair");
  } else {
    __CPROVER_assert(!def ? g_refused : 1, "C05,C06: creation_failed on an indefinite map only after a refused request");
    __CPROVER_assert(top0->metadata.map_metadata.end_ptr == end0 && g_free_calls >= 1, "C06,C04: refused key: map unchanged, the rejected key released (no reference left behind)");
    __CPROVER_assert(top0->data == mapdata0 && top0->metadata.map_metadata.allocated == mapalloc0 &&
                     (end0 == 0 || ((struct cbor_pair *)top0->data)[end0 - 1].key == lastkey0),
                     "C12,C06: a refused growth leaves the pair storage where and as it was");
  }
  if (!ctx->creation_failed || g_b.append_calls == 1) {
    if (def && sub0 == 1)
      __CPROVER_assert(st->size == size0 - 1 && st->top == lower0 && g_b.append_calls == 1 && g_b.appended == top0,
                       "C02: the last due value closes the definite map, which is handed to its parent");
    else
      __CPROVER_assert(st->size == size0 && st->top == rec0 && g_b.append_calls == 0 &&
                       rec0->subitems == (def ? sub0 - 1 : (sub0 ^ 1)),
                       "C02: key/value parity alternates; definite countdown");
  }
  __CPROVER_assert(!(def && sub0 == 1), "COVER definite map closes");
  __CPROVER_assert(!(sub0 & 1), "COVER value position");
  __CPROVER_assert(!(!(sub0 & 1) && !ctx->creation_failed), "COVER key position");
  __CPROVER_assert(!(ctx->creation_failed), "COVER key refused");
#elif defined(TOP_TAG)
  __CPROVER_assert(top0->metadata.tag_metadata.tagged_item == item && item->refcount == 1,
                   "C02,C04: a tag takes exactly one child and is its only owner");
  __CPROVER_assert(st->size == size0 - 1 && st->top == lower0 && g_b.append_calls == 1 && g_b.appended == top0,
                   "C02: the tag is complete after one child and is handed to its parent");
  __CPROVER_assert(0, "COVER tag closed");
#elif defined(TOP_BYTESTRING) || defined(TOP_STRING)
  __CPROVER_assert(ctx->syntax_error && !ctx->creation_failed, "C02,C05: a non-chunk item completing inside a chunked string is a syntax error");
  __CPROVER_assert(st->size == size0 && g_b.append_calls == 0 && CHUNKS(top0)->chunk_count == CHUNKS(top0)->chunk_count,
                   "C02: the chunked string is left open and unchanged");
  __CPROVER_assert(g_free_calls >= 1, "C04,C05: the rejected item is released (cbor_load then fails with nothing allocated)");
  __CPROVER_assert(0, "COVER syntax error raised");
#endif
#endif
#if defined(H_STRING_CALLBACK)
  /* a definite (byte) string head with its payload: any length, payload in an exactly-sized buffer */
  size_t in_len = nondet_size();
  __CPROVER_assume(in_len <= VERIF_MAXOBJ);
  unsigned char *src = mk_block(in_len);
  g_b.expect = true; g_b.exp_type = STR_TYPE; g_b.exp_width = 0; g_b.exp_bits = in_len; g_b.exp_src = src;
  if (g_k < in_len) g_b.exp_byte = src[g_k];
#if defined(TOP_BYTESTRING) || defined(TOP_STRING)
  size_t count0 = CHUNKS(top0)->chunk_count;
#endif
  STR_CALLBACK(ctx, src, in_len);
#if (defined(TOP_BYTESTRING) && defined(STR_IS_BYTES)) || (defined(TOP_STRING) && !defined(STR_IS_BYTES))
  /* a definite chunk of the same major type inside a chunked string: appended as a chunk */
  __CPROVER_assert(!ctx->syntax_error && g_b.append_calls == 0 && st->size == size0 && st->top == rec0,
                   "C02: a same-type definite chunk extends the open chunked string, which stays open");
  if (!ctx->creation_failed) {
    __CPROVER_assert(CHUNKS(top0)->chunk_count == count0 + 1, "C02: exactly one chunk is added (chunk boundaries preserved)");
    __CPROVER_assert(g_live == live0 + 2 || (g_live == live0 + 3), "C13: node + buffer (+ first chunk table) obtained");
  } else {
    __CPROVER_assert(g_refused, "C05,C06: creation_failed only after a refused request");
    __CPROVER_assert(CHUNKS(top0)->chunk_count == count0 && g_live == live0, "C06: refused chunk: string unchanged, nothing left allocated");
  }
  __CPROVER_assert(ctx->creation_failed, "COVER chunk added");
  __CPROVER_assert(!ctx->creation_failed, "COVER chunk refused");
#else
  /* anywhere else (no item open, array/map/tag open, or a chunked string of the OTHER major type): a complete item */
  if (g_b.append_calls == 0) {
    __CPROVER_assert(ctx->creation_failed && g_refused && g_live == live0 && st->size == size0,
                     "C06,C05: a string that cannot be allocated raises creation_failed; nothing allocated, nothing changed");
    __CPROVER_assert(!ctx->syntax_error, "C16,C05: decoding never rejects a string because of its content");
  } else {
    __CPROVER_assert(g_b.append_calls == 1, "C02: exactly one item is completed per definite string head");
  }
  __CPROVER_assert(!(g_b.append_calls == 1), "COVER string completed");
  __CPROVER_assert(!(g_b.append_calls == 0), "COVER string refused");
  __CPROVER_assert(!(g_b.append_calls == 1 && in_len > 100000), "COVER long string completed");
#endif
#endif
#if defined(H_BREAK)
  /* the break head FF: closes exactly an open indefinite item (a map only at even parity), else a syntax error */
  bool closable = false;
#if defined(TOP_INDEF_ARRAY) || defined(TOP_BYTESTRING) || defined(TOP_STRING)
  closable = true;
#elif defined(TOP_MAP)
  closable = top0->metadata.map_metadata.type == _CBOR_METADATA_INDEFINITE && (sub0 % 2 == 0);
#endif
  cbor_builder_indef_break_callback(ctx);
  if (closable) {
    __CPROVER_assert(g_b.append_calls == 1 && g_b.appended == top0,
                     "C02: a break closes the open indefinite item, which is handed to its parent");
    __CPROVER_assert(g_free_calls >= 1 && st->size <= size0 - 1, "C04: the closed item's stack frame is released (exactly once: _cbor_stack_pop's contract)");
  } else {
    __CPROVER_assert(ctx->syntax_error && !ctx->creation_failed && g_b.append_calls == 0 && st->size == size0 && st->top == rec0,
                     "C02,C05: a break with no open indefinite item (or a map waiting for a value) is a syntax error; nothing changes");
    __CPROVER_assert(g_free_calls == 0 && g_live == live0, "C04: nothing is released by a rejected break");
  }
#if defined(TOP_INDEF_ARRAY) || defined(TOP_BYTESTRING) || defined(TOP_STRING) || defined(TOP_MAP)
  __CPROVER_assert(!closable, "COVER break closes");
#endif
#if !(defined(TOP_INDEF_ARRAY) || defined(TOP_BYTESTRING) || defined(TOP_STRING))
  __CPROVER_assert(closable, "COVER break rejected");
#endif
#endif
#if defined(H_CALLBACK)
  uint64_t nd = nondet_u64();
  float ndf = nondet_float();
  double ndd = nondet_double();
  bool ndb = nondet_bool();
  size_t L = CBOR_MAX_STACK_SIZE;
#if defined(CB_PUSH_TYPE)
  g_b.expect_push = true; g_b.push_type = CB_PUSH_TYPE; g_b.push_flavour = CB_PUSH_FLAVOUR; g_b.push_arg = CB_PUSH_ARG;
  g_b.push_subitems = (CB_SUBITEMS);
#endif
#if defined(CB_EXP_TYPE)
  g_b.expect = true; g_b.exp_type = CB_EXP_TYPE; g_b.exp_width = CB_EXP_WIDTH; g_b.exp_bits = CB_EXP_BITS;
#endif
  CALL;
  /* common to all callbacks */
  /* (once the completed item has been handed upwards the flags are the upward step's business) */
  if (g_b.append_calls == 0)
    __CPROVER_assert(!ctx->creation_failed || g_refused || size0 == L || CB_MAY_FAIL_ON_LENGTH,
                     "C05,C02: creation_failed only after a refused allocation or at the nesting limit");
#if defined(CB_LEAF)
  /* a leaf head: one fresh item of exactly the decoded type/width/value is completed */
  __CPROVER_assert(!ctx->syntax_error || g_b.append_calls == 1, "C05: a leaf callback itself never raises a syntax error");
  if (g_b.append_calls == 0) {
    __CPROVER_assert(ctx->creation_failed && g_refused && g_live == live0 && st->size == size0,
                     "C06,C05: a leaf that cannot be allocated raises creation_failed; nothing allocated, nothing changed");
  } else {
    /* type / width / value of the completed leaf are checked as a precondition of the hand-over (APPENDED_AS_EXPECTED) */
    __CPROVER_assert(g_b.append_calls == 1 && g_b.appended != NULL, "C02: exactly one item is completed per leaf head");
  }
  __CPROVER_assert(!(g_b.append_calls == 1), "COVER leaf completed");
  __CPROVER_assert(!(ctx->creation_failed), "COVER leaf refused");
#elif defined(CB_OPENER)
  /* an opening head: exactly one frame is pushed (C19), or the failure is reported and nothing is left behind */
  if (g_b.append_calls == 0) __CPROVER_assert(!ctx->syntax_error, "C05: opening an item never raises a syntax error by itself");
  if (g_b.append_calls == 1) {
    __CPROVER_assert(CB_COMPLETE_IF_EMPTY, "C02: only a definite container of size 0 is complete at its opening head");
  }
  if (g_b.append_calls == 0 && ctx->creation_failed) {
    __CPROVER_assert(st->size == size0 && st->top == rec0, "C19,C06: a refused opener pushes nothing");
    __CPROVER_assert(g_live == live0, "C06: a refused opener leaves nothing allocated");
  } else if (g_b.append_calls == 1) {
    /* kind / flavour / emptiness of the container are checked when it is handed over (APPENDED_AS_EXPECTED) */
    __CPROVER_assert(st->size <= size0 && g_b.append_calls == 1,
                     "C02: a definite container of size 0 is complete at once and is handed to its parent (no frame pushed)");
  } else {
    __CPROVER_assert(size0 < L, "C19: nesting beyond the configured limit is refused (MEMERROR), never accepted");
    __CPROVER_assert(st->size == size0 + 1 && st->top != rec0 && st->top->lower == rec0 && g_b.append_calls == 0,
                     "C19,C02: every opening head pushes exactly one frame");
    /* kind / flavour / preallocated size / members due of the new frame's item are checked when it is pushed
     * (PUSHED_AS_EXPECTED, a precondition asserted at the call site) */
  }
  __CPROVER_assert(!(size0 == L), "COVER opener at the nesting limit");
  __CPROVER_assert(!(ctx->creation_failed && size0 < L), "COVER opener refused by the allocator");
  __CPROVER_assert(!(!ctx->creation_failed && st->size == size0 + 1), "COVER frame pushed");
#endif
  (void)nd; (void)ndf; (void)ndd; (void)ndb;
#endif
  (void)sub0; (void)lower0; (void)live0; (void)top0;
}
