/* Contracts / variants for the verbatim regions of cbor_copy's composite cases (vlib/extract.py: cbor_copy_parts), C11 C06 C04.
 *
 * Loop rule (meta-argument A2; the 'for' constructs are what the extraction drops, their headers are checked textually:
 * 'size_t i = 0; <cond>; i++'):  <kind>_pre establishes INV(0) or returns NULL with nothing left;  <kind>_cond is exactly
 * i < member count of the SOURCE;  <kind>_body turns INV(i) into INV(i+1) having copied exactly member i (through the
 * induction-hypothesis twin cbor_copy__child) and attached it at position i, or returns NULL after releasing the partial
 * copy and the member copy;  <kind>_post returns the copy.  The region specifications are asserted by the harness
 * (harness/copy_parts.c, lemma style: frames over the slot storage are not enforced, see DESIGN 11.2). */
#ifndef VERIF_C_COPY_PARTS_H
#define VERIF_C_COPY_PARTS_H
#include "contracts/copy.h"

/* cbor_decref as the regions see it: hereditary (A1: the subtree is the released item's business) + call record */
/* (assumed variants require the allocator binding only: the numeric part of ALLOC_MODEL_BOUND exists to keep "+1" in
 * enforced postconditions from wrapping, and the induction-hypothesis twin hands back arbitrary counter values) */
void cbor_decref__counted(cbor_item_t **item_ref)
__CPROVER_requires(ALLOC_BINDING && __CPROVER_rw_ok(item_ref, sizeof(cbor_item_t *)) && ITEM_RW(*item_ref) &&
                   (*item_ref)->refcount >= 1 && HEAP_BLOCK(*item_ref) && g_d.calls < 8)
/* the caller's pointer is cleared only with the last reference: elsewhere it stays a KNOWN pointer (a pointer read back
 * from contract-assigned memory cannot be dereferenced by the verifier, and made the second of two calls infeasible) */
__CPROVER_assigns(ALLOC_GHOSTS, g_d, (*item_ref)->refcount)
__CPROVER_assigns((*item_ref)->refcount == 1 : *item_ref)
__CPROVER_frees((*item_ref)->refcount == 1 : *item_ref)
__CPROVER_ensures(g_d.calls == OLD(g_d.calls) + 1 &&
                  g_d.hits == OLD(g_d.hits) + ((OLD((*item_ref)->refcount) == 1) ? 1 : 0))
__CPROVER_ensures(OLD((*item_ref)->refcount) > 1 ==>
                  ((*item_ref)->refcount == OLD((*item_ref)->refcount) - 1 && g_live == OLD(g_live) && g_free_calls == OLD(g_free_calls)))
__CPROVER_ensures(OLD((*item_ref)->refcount) == 1 ==> (*item_ref == NULL && g_free_calls > OLD(g_free_calls) && g_live < OLD(g_live)))
__CPROVER_ensures(g_malloc_calls == OLD(g_malloc_calls) && g_realloc_calls == OLD(g_realloc_calls) && g_refused == OLD(g_refused));

/* cbor_map_add as the map case of cbor_copy sees it: the facts of the full contract (contracts/items_cont.h; proofs
 * cont_map_add_lemma, cont_map_add_value, append_map) that do not mention the pair storage, plus a ghost record of what was
 * added where.  With the storage in the frame (symbolic-capacity struct array) the region proof ran out of memory (40 GB)
 * even for capacity <= 4; the region never reads the storage, so what is lost is only "earlier pairs unchanged", which is
 * cbor_map_add's own postcondition. */
struct verif_mapadd_ghost { size_t calls; cbor_item_t *item, *key, *value; };
extern struct verif_mapadd_ghost g_m;
bool cbor_map_add__copy(cbor_item_t *item, struct cbor_pair pair)
__CPROVER_requires(ALLOC_BINDING && MAP_VALID(item) && ITEM_RW(pair.key) && pair.key->refcount < SIZE_MAX - 1 &&
                   ITEM_RW(pair.value) && pair.value->refcount < SIZE_MAX - 1 && pair.key != item && pair.value != item &&
                   pair.key != pair.value && g_m.calls < 4)
__CPROVER_requires((MP_META(item).type == _CBOR_METADATA_INDEFINITE && MP_META(item).allocated > 0) ==> HEAP_BLOCK(item->data))
__CPROVER_assigns(ALLOC_GHOSTS, g_m, MP_META(item).end_ptr, MP_META(item).allocated, pair.key->refcount, pair.value->refcount)
__CPROVER_ensures(MP_META(item).type == _CBOR_METADATA_DEFINITE ==>
                  (RET == (OLD(MP_META(item).end_ptr) < OLD(MP_META(item).allocated)) &&
                   MP_META(item).allocated == OLD(MP_META(item).allocated) && g_realloc_calls == OLD(g_realloc_calls)))
__CPROVER_ensures((MP_META(item).type == _CBOR_METADATA_INDEFINITE && !RET) ==> g_refused)
__CPROVER_ensures(RET ==> (MP_META(item).end_ptr == OLD(MP_META(item).end_ptr) + 1 && MP_META(item).end_ptr <= MP_META(item).allocated &&
                           pair.key->refcount == OLD(pair.key->refcount) + 1 && pair.value->refcount == OLD(pair.value->refcount) + 1))
__CPROVER_ensures(!RET ==> (MP_META(item).end_ptr == OLD(MP_META(item).end_ptr) && MP_META(item).allocated == OLD(MP_META(item).allocated) &&
                            pair.key->refcount == OLD(pair.key->refcount) && pair.value->refcount == OLD(pair.value->refcount) &&
                            g_live == OLD(g_live)))
__CPROVER_ensures(g_malloc_calls == OLD(g_malloc_calls) && g_free_calls == OLD(g_free_calls) && (OLD(g_refused) ==> g_refused) &&
                  g_m.calls == OLD(g_m.calls) + 1 && g_m.item == item && g_m.key == pair.key && g_m.value == pair.value);

/* region prototypes (generated file cbor_copy_parts.c) */
cbor_item_t *cbor_copy__array_pre(cbor_item_t *item, cbor_item_t **verif_res, bool *verif_fell_through);
bool cbor_copy__array_cond(cbor_item_t *item, cbor_item_t *res, size_t i);
cbor_item_t *cbor_copy__array_body(cbor_item_t *item, cbor_item_t *res, size_t i, cbor_item_t **verif_res, bool *verif_fell_through);
cbor_item_t *cbor_copy__array_post(cbor_item_t *item, cbor_item_t *res);

cbor_item_t *cbor_copy__map_pre(cbor_item_t *item, cbor_item_t **verif_res, struct cbor_pair **verif_it, bool *verif_fell_through);
bool cbor_copy__map_cond(cbor_item_t *item, cbor_item_t *res, struct cbor_pair *it, size_t i);
cbor_item_t *cbor_copy__map_body(cbor_item_t *item, cbor_item_t *res, struct cbor_pair *it, size_t i, cbor_item_t **verif_res, bool *verif_fell_through);
cbor_item_t *cbor_copy__map_post(cbor_item_t *item, cbor_item_t *res, struct cbor_pair *it);

cbor_item_t *cbor_copy__bytestring_pre(cbor_item_t *item, cbor_item_t **verif_res, bool *verif_fell_through);
bool cbor_copy__bytestring_cond(cbor_item_t *item, cbor_item_t *res, size_t i);
cbor_item_t *cbor_copy__bytestring_body(cbor_item_t *item, cbor_item_t *res, size_t i, cbor_item_t **verif_res, bool *verif_fell_through);
cbor_item_t *cbor_copy__bytestring_post(cbor_item_t *item, cbor_item_t *res);

cbor_item_t *cbor_copy__string_pre(cbor_item_t *item, cbor_item_t **verif_res, bool *verif_fell_through);
bool cbor_copy__string_cond(cbor_item_t *item, cbor_item_t *res, size_t i);
cbor_item_t *cbor_copy__string_body(cbor_item_t *item, cbor_item_t *res, size_t i, cbor_item_t **verif_res, bool *verif_fell_through);
cbor_item_t *cbor_copy__string_post(cbor_item_t *item, cbor_item_t *res);
#endif
