/* cbor_copy step per node kind (-DCOPY_KIND_*): the source node has shallow validity; child copies come
 * from the twin cbor_copy__child; every allocator request may be refused independently (C06). */
#include "harness/mkitem.h"
#include "stubs/alloc_model.h"
#include "contracts/copy.h"

cbor_item_t *cbor_copy__top(cbor_item_t *item);

void harness(void) {
  VERIF_ALLOC_RESET();
  verif_bind_allocator();
  g_k = nondet_size();
  __CPROVER_assume(g_k <= VERIF_MAXCNT);
  g_s.valid = false;
  g_c.calls = 0; g_c.ordered = true; g_c.inc = 0; g_c.dec = 0; g_c.kth = NULL; g_c.child_failed = false;
  g_cc.slots = NULL; g_cc.pairs = NULL; g_cc.n = 0; g_cc.child_type = -1;
  g_d.calls = 0; g_d.hits = 0; g_d.last = NULL;
  g_u_src = NULL; g_u_len = 0; g_u_calls = 0; g_u_count = 0; g_u_state = 0;
#if defined(COPY_KIND_INT)
  cbor_item_t *it = mk_int();
#elif defined(COPY_KIND_FLOAT_CTRL)
  cbor_item_t *it = mk_float_ctrl();
#elif defined(COPY_KIND_DEF_BYTESTRING)
  cbor_item_t *it = mk_def_bytestring();
  __CPROVER_assume(it->data != NULL || it->metadata.bytestring_metadata.length == 0);
  g_s.valid = true;
  if (g_k < it->metadata.bytestring_metadata.length) g_s.byte = it->data[g_k];
#elif defined(COPY_KIND_DEF_STRING)
  cbor_item_t *it = mk_def_string();
  g_s.valid = true;
  if (g_k < it->metadata.string_metadata.length) g_s.byte = it->data[g_k];
#elif defined(COPY_KIND_TAG)
  cbor_item_t *it = mk_tag();
  it->metadata.tag_metadata.tagged_item = nondet_ptr();
  g_cc.slots = &it->metadata.tag_metadata.tagged_item; g_cc.n = 1;
#elif defined(COPY_KIND_ARRAY)
  cbor_item_t *it = mk_array();
#if defined(COPY_ARRAY_DEFINITE)
  __CPROVER_assume(it->metadata.array_metadata.type == _CBOR_METADATA_DEFINITE);
#elif defined(COPY_ARRAY_INDEFINITE)
  __CPROVER_assume(it->metadata.array_metadata.type == _CBOR_METADATA_INDEFINITE);
#endif
  g_cc.slots = (cbor_item_t **)it->data; g_cc.n = it->metadata.array_metadata.end_ptr;
#endif
  cbor_item_t snap = *it; /* every field of the source node header */
  size_t live0 = g_live, free0 = g_free_calls;
  cbor_item_t *r = cbor_copy__top(it);

  /* the source node is untouched; transient references on its children were given back */
  __CPROVER_assert(it->refcount == snap.refcount && it->type == snap.type && it->data == snap.data,
                   "C11,C06: the source node's reference count, type and data pointer are unchanged");
  __CPROVER_assert(g_c.inc == g_c.dec, "C11: every transient reference taken on a child of the source was given back");
  if (r == NULL) {
    __CPROVER_assert(g_refused || g_c.child_failed, "C06: cbor_copy fails only when an allocation was refused");
#if defined(COPY_KIND_TAG)
    if (g_c.calls == 1 && !g_c.child_failed)
      __CPROVER_assert(g_free_calls > free0, "C06,C04: when the tag itself cannot be allocated the already made copy of the tagged item is released");
#endif
#if defined(COPY_KIND_INT) || defined(COPY_KIND_FLOAT_CTRL) || defined(COPY_KIND_DEF_BYTESTRING) || defined(COPY_KIND_DEF_STRING)
    __CPROVER_assert(g_live == live0, "C06: a failed copy leaves nothing allocated");
#endif
  } else {
    __CPROVER_assert(r != it && r->refcount == 1 && r->type == it->type, "C11: a fresh node of the same major type with reference count one");
#if defined(COPY_KIND_INT)
    __CPROVER_assert(r->metadata.int_metadata.width == it->metadata.int_metadata.width, "C11: same integer width");
    /* the payloads are read at their computed addresses (node + sizeof node), see contracts/valid.h PAYLOAD */
    __CPROVER_assert(r->data == PAYLOAD(r), "C11: the copy's payload pointer points behind the copy's own node");
    switch (it->metadata.int_metadata.width) {
      case CBOR_INT_8: __CPROVER_assert(*PAYLOAD(r) == *PAYLOAD(it), "C11: same integer value (8 bit)"); break;
      case CBOR_INT_16: __CPROVER_assert(*(uint16_t *)PAYLOAD(r) == *(uint16_t *)PAYLOAD(it), "C11: same integer value (16 bit)"); break;
      case CBOR_INT_32: __CPROVER_assert(*(uint32_t *)PAYLOAD(r) == *(uint32_t *)PAYLOAD(it), "C11: same integer value (32 bit)"); break;
      default: __CPROVER_assert(*(uint64_t *)PAYLOAD(r) == *(uint64_t *)PAYLOAD(it), "C11: same integer value (64 bit)"); break;
    }
    __CPROVER_assert(g_live == live0 + 1, "C13: one block for an integer copy");
#elif defined(COPY_KIND_FLOAT_CTRL)
    __CPROVER_assert(r->metadata.float_ctrl_metadata.width == it->metadata.float_ctrl_metadata.width, "C11: same float width");
    if (it->metadata.float_ctrl_metadata.width == CBOR_FLOAT_0)
      __CPROVER_assert(r->metadata.float_ctrl_metadata.ctrl == it->metadata.float_ctrl_metadata.ctrl, "C11: same simple value");
    else if (it->metadata.float_ctrl_metadata.width == CBOR_FLOAT_64)
      __CPROVER_assert(*(uint64_t *)PAYLOAD(r) == *(uint64_t *)PAYLOAD(it), "C11,C15: same double bits");
    else
      __CPROVER_assert(*(uint32_t *)PAYLOAD(r) == *(uint32_t *)PAYLOAD(it), "C11,C15: same float bits");
#elif defined(COPY_KIND_DEF_BYTESTRING)
    __CPROVER_assert(r->metadata.bytestring_metadata.type == _CBOR_METADATA_DEFINITE &&
                     r->metadata.bytestring_metadata.length == it->metadata.bytestring_metadata.length,
                     "C11: definite byte string of the same length");
    __CPROVER_assert(r->data != it->data || it->metadata.bytestring_metadata.length == 0, "C11: the copy does not share the source's buffer");
    if (g_k < it->metadata.bytestring_metadata.length)
      __CPROVER_assert(r->data[g_k] == it->data[g_k], "C11: same bytes");
#elif defined(COPY_KIND_DEF_STRING)
    __CPROVER_assert(r->metadata.string_metadata.type == _CBOR_METADATA_DEFINITE &&
                     r->metadata.string_metadata.length == it->metadata.string_metadata.length,
                     "C11: definite text string of the same length");
    __CPROVER_assert(r->data != it->data || it->metadata.string_metadata.length == 0, "C11: the copy does not share the source's buffer");
    if (g_k < it->metadata.string_metadata.length)
      __CPROVER_assert(r->data[g_k] == it->data[g_k], "C11: same bytes");
#elif defined(COPY_KIND_TAG)
    __CPROVER_assert(r->metadata.tag_metadata.value == it->metadata.tag_metadata.value, "C11: same tag number");
    __CPROVER_assert(g_c.calls == 1 && g_c.ordered && r->metadata.tag_metadata.tagged_item == g_c.kth || g_k != 0,
                     "C11: the tagged item of the copy is the copy of the tagged item");
#elif defined(COPY_KIND_ARRAY)
    __CPROVER_assert(r->metadata.array_metadata.type == it->metadata.array_metadata.type &&
                     r->metadata.array_metadata.end_ptr == it->metadata.array_metadata.end_ptr,
                     "C11: same flavour and member count");
    __CPROVER_assert(it->metadata.array_metadata.type != _CBOR_METADATA_DEFINITE ||
                     r->metadata.array_metadata.allocated == it->metadata.array_metadata.end_ptr,
                     "C11: a definite copy is allocated for exactly the stored members");
    __CPROVER_assert(g_c.calls == it->metadata.array_metadata.end_ptr && g_c.ordered, "C11: every member copied once, in storage order");
    if (g_k < it->metadata.array_metadata.end_ptr)
      __CPROVER_assert(((cbor_item_t **)r->data)[g_k] == g_c.kth, "C11: member k of the copy is the copy of member k");
    __CPROVER_assert(r->data != it->data || it->metadata.array_metadata.end_ptr == 0, "C11: the copy does not share the source's storage");
#endif
  }
  __CPROVER_assert(r == NULL, "COVER copied");
  __CPROVER_assert(r != NULL, "COVER copy failed (allocation refused)");
  (void)snap; (void)free0;
}
