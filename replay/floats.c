/* Native replay for the C15 round-trip harnesses (compiled with the proof's -DH_*): argv in_h= / in_bits=. */
#include <stdio.h>
#include <stdlib.h>
#include <string.h>
#include "cbor.h"
#include "cbor/internal/loaders.h"
#include "spec/head.h"
static unsigned long long arg(int argc, char **argv, const char *k) {
  size_t n = strlen(k);
  for (int i = 1; i < argc; i++)
    if (!strncmp(argv[i], k, n) && argv[i][n] == '=') return strtoull(argv[i] + n + 1, 0, 0);
  return 0;
}
static int bad = 0;
#define CHECK(c, m) do { if (!(c)) { printf("VIOLATED: %s\n", m); bad = 1; } } while (0)
int main(int argc, char **argv) {
#if defined(H_HALF_ROUNDTRIP)
  uint16_t h = (uint16_t)arg(argc, argv, "in_h");
  unsigned char src[2] = {h >> 8, h & 0xff}, out[3];
  float f = _cbor_load_half(src);
  uint32_t u; memcpy(&u, &f, 4);
  uint32_t e = spec_half_to_float_bits(h);
  printf("half %04x -> %08x (spec %08x)\n", h, u, e);
  CHECK(spec_f32_is_nan(e) ? spec_f32_is_nan(u) : u == e, "half decodes to the IEEE value");
  size_t w = cbor_encode_half(f, out, 3);
  CHECK(w == 3 && out[0] == 0xF9, "three bytes");
  if (spec_f32_is_nan(e)) CHECK(out[1] == 0x7E && out[2] == 0, "NaN -> 7E00");
  else CHECK(out[1] == src[0] && out[2] == src[1], "re-encode reproduces bytes");
#elif defined(H_SINGLE_ROUNDTRIP)
  uint32_t b = (uint32_t)arg(argc, argv, "in_bits");
  unsigned char src[4] = {b >> 24, b >> 16, b >> 8, b}, out[5];
  float f = _cbor_load_float(src); uint32_t u; memcpy(&u, &f, 4);
  CHECK(u == b, "single decodes to identical bits");
  size_t w = cbor_encode_single(f, out, 5);
  uint32_t o = ((uint32_t)out[1] << 24) | ((uint32_t)out[2] << 16) | ((uint32_t)out[3] << 8) | out[4];
  CHECK(w == 5 && out[0] == 0xFA && o == (spec_f32_is_nan(b) ? 0x7FC00000u : b), "single re-encodes");
#elif defined(H_DOUBLE_ROUNDTRIP)
  uint64_t b = arg(argc, argv, "in_bits");
  unsigned char src[8], out[9];
  for (int i = 0; i < 8; i++) src[i] = (unsigned char)(b >> (56 - 8 * i));
  double f = _cbor_load_double(src); uint64_t u; memcpy(&u, &f, 8);
  CHECK(u == b, "double decodes to identical bits");
  size_t w = cbor_encode_double(f, out, 9);
  uint64_t o = 0; for (int i = 1; i <= 8; i++) o = (o << 8) | out[i];
  CHECK(w == 9 && out[0] == 0xFB && o == (spec_f64_is_nan(b) ? 0x7FF8000000000000ull : b), "double re-encodes");
#endif
  return bad ? 3 : 0;
}
