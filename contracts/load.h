/* cbor_load (C05, C01, C02, C14): outcome dichotomy and definitive error reporting. */
#ifndef VERIF_C_LOAD_H
#define VERIF_C_LOAD_H
#include "contracts/refcount.h"
#include "contracts/stack.h"
#include "contracts/builder.h"
#include "cbor.h"

/* K' (DESIGN 5 C01): what one call of cbor_stream_decode does WHEN ITS CALLBACK TABLE IS THE BUILDER TABLE, as seen
 * by cbor_load.  It is the composition of the C08 contract (proof stream_decode_contract) with the builder callback
 * transitions (proofs cb_*, append_*).  That composition, and the fact that cbor_load's function-local static table
 * holds the 24 builder callbacks (DFCC treats the non-const static as arbitrary), are NOT machine-checked: K' is an
 * assumed contract (assumptions A9 and A10 in every evidence file that uses it).
 * Hereditary validity (A1): the frame on top of the stack after the call is handed back as fresh valid objects. */
#define LCTX(c) ((struct _cbor_decoder_context *)(c))
#define FRAME_FRESH(st)                                                                                \
  ((st)->size == 0 ||                                                                                  \
   (__CPROVER_is_fresh((st)->top, sizeof(struct _cbor_stack_record)) &&                                \
    __CPROVER_is_fresh((st)->top->item, sizeof(cbor_item_t)) && (st)->top->item->refcount == 1))
struct cbor_decoder_result cbor_stream_decode__load(cbor_data source, size_t source_size,
                                                    const struct cbor_callbacks *callbacks, void *context)
/* cbor_load never calls the decoder with an empty remainder, and always inside the caller's buffer */
__CPROVER_requires(source_size >= 1 && __CPROVER_r_ok(source, source_size))
__CPROVER_requires(__CPROVER_rw_ok(LCTX(context), sizeof(struct _cbor_decoder_context)) && STACK_OK(LCTX(context)->stack) &&
                   !LCTX(context)->creation_failed && !LCTX(context)->syntax_error &&
                   LCTX(context)->stack->size <= CBOR_MAX_STACK_SIZE && ALLOC_MODEL_BOUND)
__CPROVER_assigns(ALLOC_GHOSTS, g_b, g_d, LCTX(context)->creation_failed, LCTX(context)->syntax_error, LCTX(context)->root,
                  *LCTX(context)->stack)
__CPROVER_ensures(RET.status == CBOR_DECODER_FINISHED || RET.status == CBOR_DECODER_NEDATA || RET.status == CBOR_DECODER_ERROR)
__CPROVER_ensures(RET.status == CBOR_DECODER_FINISHED ==> (RET.read >= 1 && RET.read <= source_size))
__CPROVER_ensures(RET.status != CBOR_DECODER_FINISHED ==>
                  (RET.read == 0 && !LCTX(context)->creation_failed && !LCTX(context)->syntax_error &&
                   LCTX(context)->stack->size == OLD(LCTX(context)->stack->size)))
__CPROVER_ensures(LCTX(context)->stack->size <= CBOR_MAX_STACK_SIZE)
#ifdef VERIF_LOAD_DEPTH_BOUND
/* bounded stand-in only: the clean-up loop of cbor_load is unwound, so the depth at which a run may fail is bounded */
__CPROVER_ensures(LCTX(context)->stack->size <= VERIF_LOAD_DEPTH_BOUND)
#endif
__CPROVER_ensures(FRAME_FRESH(LCTX(context)->stack));

/* hereditary variant of _cbor_stack_pop for the clean-up loop: the frame below is handed back as valid objects (A1) */
void _cbor_stack_pop__hered(struct _cbor_stack *stack)
__CPROVER_requires(ALLOC_MODEL_BOUND && STACK_OK(stack) && stack->size >= 1 && REC_OK(stack->top) && HEAP_BLOCK(stack->top))
__CPROVER_assigns(ALLOC_GHOSTS, *stack)
__CPROVER_frees(stack->top)
__CPROVER_ensures(stack->size == OLD(stack->size) - 1 && g_free_calls == OLD(g_free_calls) + 1 &&
                  g_malloc_calls == OLD(g_malloc_calls) && g_realloc_calls == OLD(g_realloc_calls))
__CPROVER_ensures(FRAME_FRESH(stack));

cbor_item_t *cbor_load(cbor_data source, size_t source_size, struct cbor_load_result *result)
__CPROVER_requires(ALLOC_MODEL_BOUND && source_size <= VERIF_MAXOBJ && __CPROVER_r_ok(source, source_size))
__CPROVER_requires(__CPROVER_w_ok(result, sizeof(*result)))
__CPROVER_assigns(ALLOC_GHOSTS, *result, g_d)
/* empty input: NODATA, and every field of the result is filled in */
__CPROVER_ensures(source_size == 0 ==>
                  (RET == NULL && result->error.code == CBOR_ERR_NODATA && result->read == 0 && result->error.position == 0))
/* failure is always reported with a code, positioned at the bytes consumed so far */
__CPROVER_ensures(RET == NULL ==> (result->error.code != CBOR_ERR_NONE && result->error.position == result->read &&
                                   result->read <= source_size))
/* the stack is always emptied; a non-empty input never yields NODATA */
__CPROVER_ensures(source_size >= 1 ==> result->error.code != CBOR_ERR_NODATA)
/* success: no error, and a non-empty prefix of the input was consumed */
__CPROVER_ensures(RET != NULL ==> (result->error.code == CBOR_ERR_NONE && result->read >= 1 && result->read <= source_size));
#endif
