#include <stddef.h>
/* symbolic nesting limit for the C19 proofs (non-const: a const global would be the constant 0 under DFCC) */
size_t verif_max_stack_size;
