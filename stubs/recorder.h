/* Recording callback table for the streaming decoder (C08, C09, C10, C14): every slot records
 * which callback fired, how often, and with which arguments, in ghost globals. */
#ifndef VERIF_RECORDER_H
#define VERIF_RECORDER_H
#include <stdbool.h>
#include <stddef.h>
#include <stdint.h>
#include "cbor/callbacks.h"
#include "spec/head.h"

struct verif_event_ghost {
  unsigned count;           /* callbacks fired */
  int slot;                 /* enum spec_event of the last one */
  uint64_t arg;             /* integer / length / count / tag argument */
  const unsigned char *ptr; /* payload pointer (strings) */
  uint32_t fbits;           /* float2/float4 argument, bit pattern */
  uint64_t dbits;           /* float8 argument, bit pattern */
  bool boolean;
  void *ctx;
};
extern struct verif_event_ghost g_ev;
#define g_ev_count g_ev.count
#define g_ev_slot g_ev.slot
#define g_ev_arg g_ev.arg
#define g_ev_ptr g_ev.ptr
#define g_ev_fbits g_ev.fbits
#define g_ev_dbits g_ev.dbits
#define g_ev_bool g_ev.boolean
#define g_ev_ctx g_ev.ctx

void rec_uint8(void *, uint8_t);
void rec_uint16(void *, uint16_t);
void rec_uint32(void *, uint32_t);
void rec_uint64(void *, uint64_t);
void rec_negint8(void *, uint8_t);
void rec_negint16(void *, uint16_t);
void rec_negint32(void *, uint32_t);
void rec_negint64(void *, uint64_t);
void rec_bstr(void *, cbor_data, uint64_t);
void rec_bstr_start(void *);
void rec_tstr(void *, cbor_data, uint64_t);
void rec_tstr_start(void *);
void rec_array(void *, uint64_t);
void rec_indef_array(void *);
void rec_map(void *, uint64_t);
void rec_indef_map(void *);
void rec_tag(void *, uint64_t);
void rec_float2(void *, float);
void rec_float4(void *, float);
void rec_float8(void *, double);
void rec_undef(void *);
void rec_null(void *);
void rec_bool(void *, bool);
void rec_break(void *);

#define VERIF_REC_RESET()                                                          \
  do {                                                                             \
    g_ev_count = 0; g_ev_slot = EV_NONE; g_ev_arg = 0; g_ev_ptr = 0;               \
    g_ev_fbits = 0; g_ev_dbits = 0; g_ev_bool = false; g_ev_ctx = 0;               \
  } while (0)

#define VERIF_REC_TABLE_INIT(t)                                                    \
  do {                                                                             \
    (t).uint8 = rec_uint8; (t).uint16 = rec_uint16; (t).uint32 = rec_uint32;       \
    (t).uint64 = rec_uint64; (t).negint64 = rec_negint64; (t).negint32 = rec_negint32; \
    (t).negint16 = rec_negint16; (t).negint8 = rec_negint8;                        \
    (t).byte_string_start = rec_bstr_start; (t).byte_string = rec_bstr;            \
    (t).string = rec_tstr; (t).string_start = rec_tstr_start;                      \
    (t).indef_array_start = rec_indef_array; (t).array_start = rec_array;          \
    (t).indef_map_start = rec_indef_map; (t).map_start = rec_map; (t).tag = rec_tag; \
    (t).float2 = rec_float2; (t).float4 = rec_float4; (t).float8 = rec_float8;     \
    (t).undefined = rec_undef; (t).null = rec_null; (t).boolean = rec_bool;        \
    (t).indef_break = rec_break;                                                   \
  } while (0)

#define VERIF_REC_TABLE_IS(t)                                                      \
  ((t)->uint8 == rec_uint8 && (t)->uint16 == rec_uint16 && (t)->uint32 == rec_uint32 && \
   (t)->uint64 == rec_uint64 && (t)->negint64 == rec_negint64 && (t)->negint32 == rec_negint32 && \
   (t)->negint16 == rec_negint16 && (t)->negint8 == rec_negint8 &&                 \
   (t)->byte_string_start == rec_bstr_start && (t)->byte_string == rec_bstr &&     \
   (t)->string == rec_tstr && (t)->string_start == rec_tstr_start &&               \
   (t)->indef_array_start == rec_indef_array && (t)->array_start == rec_array &&   \
   (t)->indef_map_start == rec_indef_map && (t)->map_start == rec_map && (t)->tag == rec_tag && \
   (t)->float2 == rec_float2 && (t)->float4 == rec_float4 && (t)->float8 == rec_float8 && \
   (t)->undefined == rec_undef && (t)->null == rec_null && (t)->boolean == rec_bool && \
   (t)->indef_break == rec_break)
#endif
