/* Library translation units are compiled with -Dmalloc=verif_libc_malloc etc. (DESIGN C13):
 * a direct call to the C library's allocator from library code lands here and fails. */
#include <stddef.h>
void *verif_libc_malloc(size_t n) {
  __CPROVER_assert(0, "C13: direct libc malloc call bypasses the configured allocator");
  return (void *)0;
}
void *verif_libc_calloc(size_t n, size_t m) {
  __CPROVER_assert(0, "C13: direct libc calloc call bypasses the configured allocator");
  return (void *)0;
}
void *verif_libc_realloc(void *p, size_t n) {
  __CPROVER_assert(0, "C13: direct libc realloc call bypasses the configured allocator");
  return (void *)0;
}
void verif_libc_free(void *p) {
  __CPROVER_assert(0, "C13: direct libc free call bypasses the configured allocator");
}
