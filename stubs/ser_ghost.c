#include "contracts/serialization.h"
struct verif_ser_ghost g_z;
struct verif_ser_const g_zc;
