/* Harnesses for the verbatim regions of cbor_copy's composite cases (generated TU cbor_copy_parts.c, vlib/extract.py).
 * Lemma style: the region specification is asserted here on the region's real text; callees are contracts or inlined. */
#include "harness/mkitem.h"
#include "stubs/alloc_model.h"
#include "contracts/copy_parts.h"

#define SETUP()                                                                      \
  VERIF_ALLOC_RESET();                                                               \
  verif_bind_allocator();                                                            \
  g_s.valid = false;                                                                 \
  g_c.calls = 0; g_c.ordered = true; g_c.inc = 0; g_c.dec = 0; g_c.kth = NULL; g_c.child_failed = false; \
  g_cc.slots = NULL; g_cc.pairs = NULL; g_cc.n = 0; g_cc.child_type = -1;            \
  g_d.calls = 0; g_d.hits = 0; g_d.last = NULL;                                      \
  g_k = nondet_size();                                                               \
  __CPROVER_assume(g_k <= VERIF_MAXCNT)

/* ------------------------------------------------------------------ arrays */
#if defined(H_COPY_ARRAY_PRE)
void harness(void) {
  SETUP();
  cbor_item_t *it = mk_array();
  cbor_item_t snap = *it;
  cbor_item_t **resp = mk_block(sizeof(cbor_item_t *));
  bool *fell = mk_block(sizeof(bool));
  size_t live0 = g_live;
  cbor_item_t *r = cbor_copy__array_pre(it, resp, fell);
  __CPROVER_assert(r == NULL, "C11: the pre-region never returns an item");
  __CPROVER_assert(it->refcount == snap.refcount && it->data == snap.data && AR_META(it).end_ptr == AR_META(&snap).end_ptr &&
                   AR_META(it).allocated == AR_META(&snap).allocated && AR_META(it).type == AR_META(&snap).type,
                   "C11: the source node is untouched");
  if (*fell) {
    cbor_item_t *res = *resp;
    __CPROVER_assert(res != NULL && res != it && res->refcount == 1 && res->type == CBOR_TYPE_ARRAY &&
                     AR_META(res).type == AR_META(it).type && AR_META(res).end_ptr == 0,
                     "C11: the copy starts as a fresh empty array of the same flavour, reference count one");
    __CPROVER_assert(AR_META(it).type != _CBOR_METADATA_DEFINITE || AR_META(res).allocated == AR_META(it).end_ptr,
                     "C11: a definite copy is allocated for exactly the stored members");
    __CPROVER_assert(res->data != it->data || res->data == NULL, "C11: the copy does not share the source's storage");
  } else {
    __CPROVER_assert(g_live == live0 && (g_refused || AR_META(it).end_ptr >= ((size_t)1 << 60)),
                     "C06: the copy is abandoned before the loop only when an allocation was refused; nothing left allocated");
  }
  __CPROVER_assert(!*fell, "COVER loop reached");
  __CPROVER_assert(*fell, "COVER refused before the loop");
}
#endif

#if defined(H_COPY_ARRAY_COND)
void harness(void) {
  SETUP();
  cbor_item_t *it = mk_array();
  cbor_item_t *res = mk_array();
  size_t i = nondet_size();
  bool c = cbor_copy__array_cond(it, res, i);
  __CPROVER_assert(c == (i < AR_META(it).end_ptr), "C11: the loop runs exactly over the stored members of the source");
  __CPROVER_assert(c, "COVER loop ends");
  __CPROVER_assert(!c, "COVER loop continues");
}
#endif

#if defined(H_COPY_ARRAY_BODY)
void harness(void) {
  SETUP();
  cbor_item_t *it = mk_array();
  size_t n = AR_META(it).end_ptr, i = nondet_size();
  __CPROVER_assume(i < n);
  /* the partial copy: INV(i) */
  cbor_item_t *res = mk_array();
  __CPROVER_assume(res->refcount == 1 && AR_META(res).type == AR_META(it).type && AR_META(res).end_ptr == i);
  __CPROVER_assume(AR_META(it).type != _CBOR_METADATA_DEFINITE || AR_META(res).allocated == n);
  g_cc.slots = AR_SLOTS(it); g_cc.n = n;
  g_c.calls = i;   /* members 0..i-1 were handed to the twin by earlier iterations */
  g_k = i;         /* watch the copy of member i */
  size_t j = nondet_size();
  __CPROVER_assume(j < i);
  cbor_item_t *old_j = i > 0 ? AR_SLOTS(res)[j] : NULL;
  cbor_item_t *src_i = AR_SLOTS(it)[i];
  cbor_item_t snap = *it;
  cbor_item_t **resp = mk_block(sizeof(cbor_item_t *));
  bool *fell = mk_block(sizeof(bool));
  size_t realloc0 = g_realloc_calls;
  unsigned char *data0 = res->data;

  cbor_item_t *r = cbor_copy__array_body(it, res, i, resp, fell);

  __CPROVER_assert(r == NULL, "C11: the body never returns an item");
  __CPROVER_assert(it->refcount == snap.refcount && it->data == snap.data && AR_META(it).end_ptr == n &&
                   AR_META(it).allocated == AR_META(&snap).allocated && AR_SLOTS(it)[i] == src_i,
                   "C11: the source node and its member are untouched");
  __CPROVER_assert(g_c.calls == i + 1 && g_c.ordered && g_c.inc == 1 && g_c.dec == 1,
                   "C11: exactly member i of the source is copied, once; the transient reference on it is given back");
  if (*fell) {
    __CPROVER_assert(*resp == res && res->refcount == 1 && AR_META(res).end_ptr == i + 1 && AR_META(res).type == AR_META(it).type,
                     "C11: INV(i+1): same partial copy, one more member");
    __CPROVER_assert(!g_c.child_failed && g_c.kth != NULL && AR_SLOTS(res)[i] == g_c.kth,
                     "C11: member i of the copy is the copy of member i of the source");
    /* (read through the slot, not through the ghost: a pointer loaded from contract-assigned memory cannot be dereferenced) */
    __CPROVER_assert(AR_SLOTS(res)[i]->refcount == 1 && g_d.calls == 1, "C04,C11: the new member is owned by the copy alone");
    if (i > 0) __CPROVER_assert(AR_SLOTS(res)[j] == old_j, "C11: earlier members of the copy are unchanged (across any regrowth)");
    __CPROVER_assert(AR_META(it).type != _CBOR_METADATA_DEFINITE || (AR_META(res).allocated == n && res->data == data0),
                     "C11,C12: a definite copy never regrows");
  } else {
    __CPROVER_assert(g_c.child_failed || g_refused, "C06: the copy is abandoned only when an allocation was refused");
    __CPROVER_assert(g_c.child_failed ? (g_d.calls == 1 && g_d.hits == 1) : (g_d.calls == 2 && g_d.hits == 2),
                     "C06,C04: on failure the partial copy is released once, and so is the member copy if it was made");
  }
  __CPROVER_assert(!*fell, "COVER member attached");
  __CPROVER_assert(!(!*fell && g_c.child_failed), "COVER member copy failed");
  __CPROVER_assert(!(!*fell && !g_c.child_failed), "COVER push failed");
  __CPROVER_assert(!(*fell && res->data != data0), "COVER copy regrown");
}
#endif

#if defined(H_COPY_ARRAY_POST)
void harness(void) {
  SETUP();
  cbor_item_t *it = mk_array();
  cbor_item_t *res = mk_array();
  cbor_item_t *r = cbor_copy__array_post(it, res);
  __CPROVER_assert(r == res, "C11: the finished copy is what cbor_copy returns");
  __CPROVER_assert(0, "COVER returned");
}
#endif

/* ------------------------------------------------------------------ chunked strings (byte / text) */
#if defined(COPY_STR_IS_TEXT)
#define MK_CHUNKED mk_indef_string
#define STR_TYPE CBOR_TYPE_STRING
#define STR_PRE cbor_copy__string_pre
#define STR_COND cbor_copy__string_cond
#define STR_BODY cbor_copy__string_body
#define STR_POST cbor_copy__string_post
#define STR_META(x) ((x)->metadata.string_metadata)
#else
#define STR_META(x) ((x)->metadata.bytestring_metadata)
#define MK_CHUNKED mk_indef_bytestring
#define STR_TYPE CBOR_TYPE_BYTESTRING
#define STR_PRE cbor_copy__bytestring_pre
#define STR_COND cbor_copy__bytestring_cond
#define STR_BODY cbor_copy__bytestring_body
#define STR_POST cbor_copy__bytestring_post
#endif

#if defined(H_COPY_STR_PRE)
void harness(void) {
  SETUP();
  cbor_item_t *it = MK_CHUNKED();
  cbor_item_t snap = *it;
  cbor_item_t **resp = mk_block(sizeof(cbor_item_t *));
  bool *fell = mk_block(sizeof(bool));
  size_t live0 = g_live;
  cbor_item_t *r = STR_PRE(it, resp, fell);
  __CPROVER_assert(r == NULL, "C11: the pre-region never returns an item");
  __CPROVER_assert(it->refcount == snap.refcount && it->data == snap.data && it->type == snap.type, "C11: the source node is untouched");
  if (*fell) {
    cbor_item_t *res = *resp;
    __CPROVER_assert(res != NULL && res != it && res->refcount == 1 && res->type == STR_TYPE &&
                     STR_META(res).type == _CBOR_METADATA_INDEFINITE,
                     "C11: the copy starts as a fresh chunked string of the same major type, reference count one");
    __CPROVER_assert(res->data != it->data && CHUNKS(res)->chunk_count == 0, "C11: own, empty chunk table");
  } else {
    __CPROVER_assert(g_live == live0 && g_refused, "C06: abandoned before the loop only when an allocation was refused; nothing left");
  }
  __CPROVER_assert(!*fell, "COVER loop reached");
  __CPROVER_assert(*fell, "COVER refused before the loop");
}
#endif

#if defined(H_COPY_STR_COND)
void harness(void) {
  SETUP();
  cbor_item_t *it = MK_CHUNKED();
  cbor_item_t *res = MK_CHUNKED();
  size_t i = nondet_size();
  bool c = STR_COND(it, res, i);
  __CPROVER_assert(c == (i < CHUNKS(it)->chunk_count), "C11: the loop runs exactly over the chunks of the source");
  __CPROVER_assert(c, "COVER loop ends");
  __CPROVER_assert(!c, "COVER loop continues");
}
#endif

#if defined(H_COPY_STR_BODY)
void harness(void) {
  SETUP();
  cbor_item_t *it = MK_CHUNKED();
  size_t n = CHUNKS(it)->chunk_count, i = nondet_size();
  __CPROVER_assume(i < n);
  cbor_item_t *res = MK_CHUNKED();
  __CPROVER_assume(res->refcount == 1 && CHUNKS(res)->chunk_count == i);
  g_cc.slots = CHUNKS(it)->chunks; g_cc.n = n; g_cc.child_type = STR_TYPE;
  g_c.calls = i;
  g_k = i;
  size_t j = nondet_size();
  __CPROVER_assume(j < i);
  cbor_item_t *old_j = i > 0 ? CHUNKS(res)->chunks[j] : NULL;
  cbor_item_t *src_i = CHUNKS(it)->chunks[i];
  cbor_item_t snap = *it;
  struct cbor_indefinite_string_data dsnap = *CHUNKS(it);
  cbor_item_t **resp = mk_block(sizeof(cbor_item_t *));
  bool *fell = mk_block(sizeof(bool));

  cbor_item_t *r = STR_BODY(it, res, i, resp, fell);

  __CPROVER_assert(r == NULL, "C11: the body never returns an item");
  __CPROVER_assert(it->refcount == snap.refcount && it->data == snap.data && CHUNKS(it)->chunk_count == n &&
                   CHUNKS(it)->chunks == dsnap.chunks && CHUNKS(it)->chunks[i] == src_i,
                   "C11: the source node, its chunk table and the chunk are untouched");
  __CPROVER_assert(g_c.calls == i + 1 && g_c.ordered, "C11: exactly chunk i of the source is copied, once");
  if (*fell) {
    __CPROVER_assert(*resp == res && res->refcount == 1 && CHUNKS(res)->chunk_count == i + 1, "C11: INV(i+1): one more chunk (chunk boundaries preserved)");
    __CPROVER_assert(!g_c.child_failed && g_c.kth != NULL && CHUNKS(res)->chunks[i] == g_c.kth, "C11: chunk i of the copy is the copy of chunk i of the source");
    __CPROVER_assert(CHUNKS(res)->chunks[i]->refcount == 1 && g_d.calls == 1, "C04,C11: the new chunk is owned by the copy alone");
    if (i > 0) __CPROVER_assert(CHUNKS(res)->chunks[j] == old_j, "C11: earlier chunks of the copy are unchanged (across any regrowth)");
  } else {
    __CPROVER_assert(g_c.child_failed || g_refused, "C06: the copy is abandoned only when an allocation was refused");
    __CPROVER_assert(g_c.child_failed ? (g_d.calls == 1 && g_d.hits == 1) : (g_d.calls == 2 && g_d.hits == 2),
                     "C06,C04: on failure the partial copy is released once, and so is the chunk copy if it was made");
  }
  __CPROVER_assert(!*fell, "COVER chunk attached");
  __CPROVER_assert(!(!*fell && g_c.child_failed), "COVER chunk copy failed");
  __CPROVER_assert(!(!*fell && !g_c.child_failed), "COVER add_chunk failed");
}
#endif

#if defined(H_COPY_STR_POST)
void harness(void) {
  SETUP();
  cbor_item_t *it = MK_CHUNKED();
  cbor_item_t *res = MK_CHUNKED();
  cbor_item_t *r = STR_POST(it, res);
  __CPROVER_assert(r == res, "C11: the finished copy is what cbor_copy returns");
  __CPROVER_assert(0, "COVER returned");
}
#endif

/* ------------------------------------------------------------------ maps */
#if defined(H_COPY_MAP_PRE)
void harness(void) {
  SETUP();
  cbor_item_t *it = mk_map();
  cbor_item_t snap = *it;
  cbor_item_t **resp = mk_block(sizeof(cbor_item_t *));
  struct cbor_pair **itp = mk_block(sizeof(struct cbor_pair *));
  bool *fell = mk_block(sizeof(bool));
  size_t live0 = g_live;
  cbor_item_t *r = cbor_copy__map_pre(it, resp, itp, fell);
  __CPROVER_assert(r == NULL, "C11: the pre-region never returns an item");
  __CPROVER_assert(it->refcount == snap.refcount && it->data == snap.data && MP_META(it).end_ptr == MP_META(&snap).end_ptr &&
                   MP_META(it).allocated == MP_META(&snap).allocated && MP_META(it).type == MP_META(&snap).type,
                   "C11: the source node is untouched");
  if (*fell) {
    cbor_item_t *res = *resp;
    __CPROVER_assert(res != NULL && res != it && res->refcount == 1 && res->type == CBOR_TYPE_MAP &&
                     MP_META(res).type == MP_META(it).type && MP_META(res).end_ptr == 0,
                     "C11: the copy starts as a fresh empty map of the same flavour, reference count one");
    __CPROVER_assert(MP_META(it).type != _CBOR_METADATA_DEFINITE || MP_META(res).allocated == MP_META(it).end_ptr,
                     "C11: a definite copy is allocated for exactly the stored pairs");
    __CPROVER_assert(*itp == MP_PAIRS(it), "C11: the loop walks the source's pair storage");
    __CPROVER_assert(res->data != it->data || res->data == NULL, "C11: the copy does not share the source's storage");
  } else {
    __CPROVER_assert(g_live == live0 && (g_refused || MP_META(it).end_ptr >= ((size_t)1 << 59)),
                     "C06: abandoned before the loop only when an allocation was refused; nothing left allocated");
  }
  __CPROVER_assert(!*fell, "COVER loop reached");
  __CPROVER_assert(*fell, "COVER refused before the loop");
}
#endif

#if defined(H_COPY_MAP_COND)
void harness(void) {
  SETUP();
  cbor_item_t *it = mk_map();
  cbor_item_t *res = mk_map();
  size_t i = nondet_size();
  bool c = cbor_copy__map_cond(it, res, MP_PAIRS(it), i);
  __CPROVER_assert(c == (i < MP_META(it).end_ptr), "C11: the loop runs exactly over the stored pairs of the source");
  __CPROVER_assert(c, "COVER loop ends");
  __CPROVER_assert(!c, "COVER loop continues");
}
#endif

#if defined(H_COPY_MAP_BODY)
struct verif_mapadd_ghost g_m;
/* cbor_map_add is represented by the storage-free part of its contract + a ghost record (contracts/copy_parts.h) */
void harness(void) {
  SETUP();
  g_m.calls = 0; g_m.item = NULL; g_m.key = NULL; g_m.value = NULL;
  cbor_item_t *it = mk_map();
  size_t n = MP_META(it).end_ptr, i = nondet_size();
  __CPROVER_assume(i < n);
  cbor_item_t *res = mk_map();
  __CPROVER_assume(res->refcount == 1 && MP_META(res).type == MP_META(it).type && MP_META(res).end_ptr == i);
  __CPROVER_assume(MP_META(it).type != _CBOR_METADATA_DEFINITE || MP_META(res).allocated == n);
  g_cc.pairs = MP_PAIRS(it); g_cc.n = n;
  g_c.calls = 2 * i;
  bool watch_value = nondet_bool();
  g_k = 2 * i + (watch_value ? 1 : 0);
  struct cbor_pair src_i = MP_PAIRS(it)[i];
  cbor_item_t snap = *it;
  cbor_item_t **resp = mk_block(sizeof(cbor_item_t *));
  bool *fell = mk_block(sizeof(bool));

  cbor_item_t *r = cbor_copy__map_body(it, res, MP_PAIRS(it), i, resp, fell);

  __CPROVER_assert(r == NULL, "C11: the body never returns an item");
  __CPROVER_assert(it->refcount == snap.refcount && it->data == snap.data && MP_META(it).end_ptr == n &&
                   MP_META(it).allocated == MP_META(&snap).allocated && MP_PAIRS(it)[i].key == src_i.key && MP_PAIRS(it)[i].value == src_i.value,
                   "C11: the source node and its pair are untouched");
  __CPROVER_assert(g_c.ordered, "C11: the key of pair i is copied first, then its value, nothing else");
  if (*fell) {
    __CPROVER_assert(g_c.calls == 2 * i + 2 && !g_c.child_failed, "C11: exactly the key and the value of pair i are copied, once each");
    __CPROVER_assert(*resp == res && res->refcount == 1 && MP_META(res).end_ptr == i + 1 && MP_META(res).type == MP_META(it).type,
                     "C11: INV(i+1): same partial copy, one more pair");
    __CPROVER_assert(g_m.calls == 1 && g_m.item == res && g_c.kth != NULL && (watch_value ? g_m.value : g_m.key) == g_c.kth &&
                     g_m.key != g_m.value,
                     "C11: the pair added to the copy is (copy of key i, copy of value i)");
    __CPROVER_assert(g_d.calls == 2 && g_d.hits == 0, "C04,C11: the body gives up its own references: the new key and value are owned by the copy alone");
    __CPROVER_assert(MP_META(it).type != _CBOR_METADATA_DEFINITE || MP_META(res).allocated == n, "C11,C12: a definite copy never regrows");
  } else {
    __CPROVER_assert(g_c.child_failed || g_refused, "C06: the copy is abandoned only when an allocation was refused");
    __CPROVER_assert(g_c.calls == 2 * i + 1 ? (g_d.calls == 1 && g_d.hits == 1 && g_m.calls == 0)
                     : g_c.child_failed ? (g_d.calls == 2 && g_d.hits == 2 && g_m.calls == 0) : (g_d.calls == 3 && g_d.hits == 3 && g_m.calls == 1),
                     "C06,C04: on failure the partial copy is released once, and so are the key / value copies that were made");
  }
  __CPROVER_assert(!*fell, "COVER pair attached");
  __CPROVER_assert(!(g_c.calls == 2 * i + 2 && !g_c.child_failed), "COVER both copies made");
  __CPROVER_assert(!(g_c.calls == 2 * i + 2 && !g_c.child_failed && g_m.calls == 1), "COVER both copies made and map_add called");
  __CPROVER_assert(!(g_c.calls == 2 * i + 2 && !g_c.child_failed && g_m.calls == 1 && g_d.hits == 0), "COVER pair added, nothing released");
  __CPROVER_assert(!(!*fell && g_c.calls == 2 * i + 1), "COVER key copy failed");
  __CPROVER_assert(!(!*fell && g_c.calls == 2 * i + 2 && g_c.child_failed), "COVER value copy failed");
  __CPROVER_assert(!(!*fell && !g_c.child_failed), "COVER map_add failed");
}
#endif

#if defined(H_COPY_MAP_POST)
void harness(void) {
  SETUP();
  cbor_item_t *it = mk_map();
  cbor_item_t *res = mk_map();
  cbor_item_t *r = cbor_copy__map_post(it, res, MP_PAIRS(it));
  __CPROVER_assert(r == res, "C11: the finished copy is what cbor_copy returns");
  __CPROVER_assert(0, "COVER returned");
}
#endif

