#include "contracts/refcount.h"
struct verif_decref_ghost g_d;
struct verif_decref_const g_dc;
