/* C10 lemma: encoder and streaming decoder are inverse.  Both real functions are represented by their
 * contracts (each discharged by its own proof: enc_* and stream_decode_contract), so this is a lemma over
 * the two contracts for ALL values and buffer sizes.  -DENC_FN, -DENC_ARGT / -DENC_NOVAL, -DDEC_SLOT,
 * -DDEC_CHECK_{ARG,NONE,BOOL,F32,F64,CTRL,STR}. */
#include <stdlib.h>
#include "cbor.h"
#include "stubs/alloc_model.h"
#include "stubs/recorder.h"

size_t nondet_size(void);
void *nondet_ptr(void);

void harness(void) {
  VERIF_ALLOC_RESET();
  VERIF_REC_RESET();
  size_t in_size = nondet_size();
  __CPROVER_assume(in_size <= VERIF_MAXOBJ);
  unsigned char *buf = malloc(in_size);
  __CPROVER_assume(buf != NULL);
  struct cbor_callbacks *table = malloc(sizeof(*table));
  __CPROVER_assume(table != NULL);
  VERIF_REC_TABLE_INIT(*table);
  void *ctx = nondet_ptr();
#ifndef ENC_NOVAL
  ENC_ARGT in_value;
#endif
#ifdef DEC_CHECK_BOOL
  in_value = (nondet_size() & 1) != 0; /* a canonical _Bool (an uninitialised _Bool is any byte in CBMC) */
#endif
  size_t w = ENC_FN(
#ifndef ENC_NOVAL
      in_value,
#endif
      buf, in_size);
  __CPROVER_assert(w == 0, "COVER encoded");
  if (w == 0) return;
#if defined(DEC_CHECK_STR)
  /* a string head is followed by its payload: decode head + payload */
  __CPROVER_assume(in_size - w >= in_value);
  struct cbor_decoder_result r = cbor_stream_decode(buf, in_size, table, ctx);
  __CPROVER_assert(r.status == CBOR_DECODER_FINISHED && g_ev_count == 1 && g_ev_slot == DEC_SLOT,
                   "C10: decoding the written string head fires the matching string callback once");
  __CPROVER_assert(g_ev_arg == in_value && g_ev_ptr == buf + w && r.read == w + in_value,
                   "C10: identical length, payload right after the head, consumes head+payload");
  __CPROVER_assert(!(in_value > 70000), "COVER long string");
#elif defined(DEC_CHECK_CTRL)
  struct cbor_decoder_result r = cbor_stream_decode(buf, w, table, ctx);
  if (in_value >= 20 && in_value <= 23) {
    __CPROVER_assert(r.status == CBOR_DECODER_FINISHED && g_ev_count == 1 && r.read == w,
                     "C10: assigned simple values decode with one callback, consuming the bytes written");
    __CPROVER_assert(g_ev_slot == (in_value <= 21 ? EV_BOOL : in_value == 22 ? EV_NULL : EV_UNDEF) &&
                     (in_value > 21 || g_ev_bool == (in_value == 21)), "C10: false/true/null/undefined");
  } else {
    __CPROVER_assert(r.status == CBOR_DECODER_ERROR && g_ev_count == 0,
                     "C10: other simple values are encoded per the RFC but not decodable (profile)");
    __CPROVER_assert(buf[0] == (in_value <= 23 ? 0xE0 + in_value : 0xF8) && (in_value <= 23 || buf[1] == in_value),
                     "C10: simple value encoded per RFC 8949 3.3");
  }
  __CPROVER_assert(!(in_value == 22), "COVER null");
  __CPROVER_assert(!(in_value == 255), "COVER unassigned simple value");
#else
  struct cbor_decoder_result r = cbor_stream_decode(buf, w, table, ctx);
  __CPROVER_assert(r.status == CBOR_DECODER_FINISHED && g_ev_count == 1 && g_ev_slot == DEC_SLOT,
                   "C10: decoding the written bytes fires the callback of the matching kind exactly once");
  __CPROVER_assert(r.read == w, "C10: decoding consumes exactly the bytes written");
#if defined(DEC_CHECK_ARG)
  __CPROVER_assert(g_ev_arg == (uint64_t)in_value, "C10: decoded value identical to the encoded value");
  __CPROVER_assert(!(in_value > 23), "COVER non-immediate value");
#elif defined(DEC_CHECK_BOOL)
  __CPROVER_assert(g_ev_bool == in_value, "C10: decoded boolean identical");
#elif defined(DEC_CHECK_F32)
  { union { float f; uint32_t u; } x; x.f = in_value;
    __CPROVER_assert(spec_f32_is_nan(x.u) ? g_ev_fbits == 0x7FC00000u : g_ev_fbits == x.u,
                     "C10,C15: single decodes to identical bits (NaN to the canonical quiet NaN)"); }
#elif defined(DEC_CHECK_F64)
  { union { double f; uint64_t u; } x; x.f = in_value;
    __CPROVER_assert(spec_f64_is_nan(x.u) ? g_ev_dbits == 0x7FF8000000000000ull : g_ev_dbits == x.u,
                     "C10,C15: double decodes to identical bits (NaN to the canonical quiet NaN)"); }
#endif
#endif
}
