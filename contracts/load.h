/* cbor_load (C05, C01, C02, C14): outcome dichotomy and definitive error reporting. */
#ifndef VERIF_C_LOAD_H
#define VERIF_C_LOAD_H
#include "contracts/refcount.h"
#include "contracts/stack.h"
#include "cbor.h"

cbor_item_t *cbor_load(cbor_data source, size_t source_size, struct cbor_load_result *result)
__CPROVER_requires(ALLOC_MODEL_BOUND && source_size <= VERIF_MAXOBJ && __CPROVER_r_ok(source, source_size))
__CPROVER_requires(__CPROVER_w_ok(result, sizeof(*result)))
__CPROVER_assigns(ALLOC_GHOSTS, *result, g_d)
/* empty input: NODATA, and every field of the result is filled in */
__CPROVER_ensures(source_size == 0 ==>
                  (RET == NULL && result->error.code == CBOR_ERR_NODATA && result->read == 0 && result->error.position == 0))
/* failure is always reported with a code, positioned at the bytes consumed so far */
__CPROVER_ensures(RET == NULL ==> (result->error.code != CBOR_ERR_NONE && result->error.position == result->read &&
                                   result->read <= source_size))
/* success: no error, and a non-empty prefix of the input was consumed */
__CPROVER_ensures(RET != NULL ==> (result->error.code == CBOR_ERR_NONE && result->read >= 1 && result->read <= source_size));
#endif
