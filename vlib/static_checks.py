"""Supporting static facts (DESIGN C13, C17): scans of the compiled objects / goto symbol table.
They are not proofs; they decide the sentences 'no direct libc allocation reference' (C13) and
'no hidden mutable global state' (C17: function-local statics, which DFCC admits silently)."""
import glob, json, os, re, shutil, subprocess, tempfile

from . import driver

FORBIDDEN = {"malloc", "calloc", "realloc", "free", "strdup", "strndup", "aligned_alloc", "posix_memalign",
             "reallocarray", "valloc", "memalign", "pvalloc"}
ALLOCATORS_MAY = {"malloc", "realloc", "free"}

# static-lifetime objects the library is known to have (DESIGN C17): name -> (const?, where it may be written)
STATIC_ALLOW = {
    "_cbor_malloc": ("mutable", {"cbor_set_allocs"}),
    "_cbor_realloc": ("mutable", {"cbor_set_allocs"}),
    "_cbor_free": ("mutable", {"cbor_set_allocs"}),
    "cbor_load::1::callbacks": ("mutable", set()),   # never written; address only passed as const struct cbor_callbacks*
    "cbor_empty_callbacks": ("const", set()),
    "kMaxEmbeddedInt": ("const", set()),
    "utf8d": ("const", set()),
    "cbor_major_version": ("const", set()), "cbor_minor_version": ("const", set()), "cbor_patch_version": ("const", set()),
}


def lib_sources():
    s = driver.SRC
    return sorted(glob.glob(os.path.join(s, "*.c")) + glob.glob(os.path.join(s, "cbor", "*.c")) +
                  glob.glob(os.path.join(s, "cbor", "internal", "*.c")))


def check_nm(spec):
    tmp = tempfile.mkdtemp(prefix="verif-nm-")
    try:
        gen = os.path.join(tmp, "gen")
        driver.gen_headers(gen)
        fails, samples, n = [], [], 0
        for f in lib_sources():
            o = os.path.join(tmp, os.path.basename(f) + ".o")
            cmd = ["clang", "-c", "-O2", "-fno-builtin", "-DNDEBUG"] + driver.REAL_DEFINES + ["-I", gen, "-I", driver.SRC, f, "-o", o]
            p = subprocess.run(cmd, stdout=subprocess.PIPE, stderr=subprocess.STDOUT)
            if p.returncode != 0:
                return dict(undecided="clang failed on %s: %s" % (f, p.stdout.decode()[-500:]), obligations=0, failures=[])
            out = subprocess.run(["nm", "-u", o], stdout=subprocess.PIPE).stdout.decode()
            und = {l.split()[-1] for l in out.splitlines() if l.strip()}
            n += 1
            bad = und & FORBIDDEN
            if os.path.basename(f) == "allocators.c":
                bad -= ALLOCATORS_MAY
            rel = os.path.relpath(f, driver.REPO)
            for b in sorted(bad):
                fails.append(dict(id="nm.%s.%s" % (os.path.basename(f), b), file=f,
                                  what="C13: %s references the C library's %s directly (bypasses the configured allocator)" % (rel, b)))
            samples.append("nm -u %s: %s" % (rel, ",".join(sorted(und & (FORBIDDEN | {"_cbor_malloc", "_cbor_realloc", "_cbor_free"}))) or "-"))
        return dict(obligations=n, failures=fails, samples=samples, cmd="clang -c -fno-builtin <each library TU>; nm -u")
    finally:
        shutil.rmtree(tmp, ignore_errors=True)


def _is_const(t):
    if not isinstance(t, dict):
        return False
    if t.get("namedSub", {}).get("#constant"):
        return True
    if t.get("id") == "array" and t.get("sub"):
        return _is_const(t["sub"][0])
    return False


def check_statics(spec):
    tmp = tempfile.mkdtemp(prefix="verif-st-")
    try:
        gen = os.path.join(tmp, "gen")
        driver.gen_headers(gen)
        gb = os.path.join(tmp, "all.gb")
        cmd = ["goto-cc", "-DNDEBUG"] + driver.REAL_DEFINES + ["-I", gen, "-I", driver.SRC] + lib_sources() + ["-o", gb]
        p = subprocess.run(cmd, stdout=subprocess.PIPE, stderr=subprocess.STDOUT)
        if p.returncode != 0:
            return dict(undecided="goto-cc failed: " + p.stdout.decode()[-500:], obligations=0, failures=[])
        out = subprocess.run(["goto-instrument", "--show-symbol-table", "--json-ui", gb], stdout=subprocess.PIPE,
                             stderr=subprocess.DEVNULL).stdout.decode()
        st = None
        for e in json.loads(out):
            if "symbolTable" in e:
                st = e["symbolTable"]
        if st is None:
            return dict(undecided="no symbol table", obligations=0, failures=[])
        fails, samples, n = [], [], 0
        statics = []
        for name, s in st.items():
            if not s.get("isStaticLifetime") or s.get("isType") or s.get("type", {}).get("id") == "code":
                continue
            if name.startswith("__CPROVER") or s.get("isThreadLocal"):
                continue
            loc = s.get("location", {}).get("file", "") or ""
            if "/src/" not in loc and not loc.startswith(driver.SRC):
                continue
            n += 1
            const = _is_const(s["type"])
            statics.append(name)
            allow = STATIC_ALLOW.get(name)
            if allow is None and not const:
                fails.append(dict(id="static." + name, file=loc, line=s.get("location", {}).get("line"),
                                  what="C17: new mutable static-lifetime object '%s' (%s) - hidden global state" % (name, loc)))
            elif allow is not None and allow[0] == "const" and not const:
                fails.append(dict(id="static." + name, file=loc,
                                  what="C17: static object '%s' is no longer const" % name))
            samples.append("%s: %s" % (name, "const" if const else "mutable, on the allow-list" if allow else "mutable, NOT allowed"))
        # writes: which function assigns to a static-lifetime object
        txt = subprocess.run(["goto-instrument", "--show-goto-functions", gb], stdout=subprocess.PIPE,
                             stderr=subprocess.DEVNULL).stdout.decode()
        fn = None
        nfn = 0
        for line in txt.splitlines():
            m = re.match(r"^(\S+) /\* \S+ \*/$", line)
            if m:
                fn = m.group(1)
                nfn += 1
                continue
            m = re.match(r"^\s+(?:\d+: )?ASSIGN (.*?) := ", line) or re.match(r"^\s+(?:\d+: )?CALL (.*?) := ", line)
            if not m or fn is None or fn.startswith("__CPROVER"):
                continue
            lhs = m.group(1)
            for name in statics:
                if re.search(r"(?<![\w:$])%s(?![\w:$])" % re.escape(name), lhs):
                    allowed = STATIC_ALLOW.get(name, ("", set()))[1]
                    if fn not in allowed:
                        fails.append(dict(id="write.%s.%s" % (fn, name),
                                          what="C17: function %s writes static-lifetime object %s (%s)" % (fn, name, lhs[:80])))
        n += nfn
        return dict(obligations=n, failures=fails, samples=samples[:8],
                    cmd="goto-cc <whole library, rel flavour>; goto-instrument --show-symbol-table/--show-goto-functions")
    finally:
        shutil.rmtree(tmp, ignore_errors=True)


def _sccs(graph):
    """Tarjan; returns the set of nodes that lie on a cycle (including self-loops)."""
    index, low, on, stack, out, counter = {}, {}, set(), [], set(), [0]

    def visit(v):
        work = [(v, iter(graph.get(v, ())))]
        index[v] = low[v] = counter[0]; counter[0] += 1
        stack.append(v); on.add(v)
        while work:
            node, it = work[-1]
            adv = False
            for w in it:
                if w not in index:
                    index[w] = low[w] = counter[0]; counter[0] += 1
                    stack.append(w); on.add(w)
                    work.append((w, iter(graph.get(w, ()))))
                    adv = True
                    break
                elif w in on:
                    low[node] = min(low[node], index[w])
            if adv:
                continue
            work.pop()
            if work:
                low[work[-1][0]] = min(low[work[-1][0]], low[node])
            if low[node] == index[node]:
                comp = []
                while True:
                    w = stack.pop(); on.discard(w); comp.append(w)
                    if w == node:
                        break
                if len(comp) > 1 or node in graph.get(node, ()):
                    out.update(comp)
    for v in list(graph):
        if v not in index:
            visit(v)
    return out


def check_frames(spec):
    """C19 (supporting static fact): every library function that takes part in recursion has a stack frame whose size is a
    compile-time constant (clang -fstack-usage: 'static'), so native stack use is (frames per level) x (nesting depth).
    A 'dynamic' frame (VLA / alloca) in a recursive function makes the stack depend on run-time values."""
    tmp = tempfile.mkdtemp(prefix="verif-su-")
    try:
        gen = os.path.join(tmp, "gen")
        driver.gen_headers(gen)
        frames = {}
        for f in lib_sources():
            o = os.path.join(tmp, os.path.basename(f) + ".o")
            cmd = ["clang", "-c", "-O0", "-fstack-usage", "-DNDEBUG"] + driver.REAL_DEFINES + ["-I", gen, "-I", driver.SRC, f, "-o", o]
            p = subprocess.run(cmd, stdout=subprocess.PIPE, stderr=subprocess.STDOUT)
            if p.returncode != 0:
                return dict(undecided="clang failed on %s: %s" % (f, p.stdout.decode()[-500:]), obligations=0, failures=[])
            su = o[:-2] + ".su"
            if not os.path.exists(su):
                return dict(undecided="no stack-usage file for " + f, obligations=0, failures=[])
            for line in open(su):
                parts = line.rstrip("\n").split("\t")
                if len(parts) >= 3:
                    frames[parts[0].split(":")[-1]] = (int(parts[1]), parts[2], parts[0])
        gb = os.path.join(tmp, "all.gb")
        p = subprocess.run(["goto-cc", "-DNDEBUG"] + driver.REAL_DEFINES + ["-I", gen, "-I", driver.SRC] + lib_sources() + ["-o", gb],
                           stdout=subprocess.PIPE, stderr=subprocess.STDOUT)
        if p.returncode != 0:
            return dict(undecided="goto-cc failed: " + p.stdout.decode()[-500:], obligations=0, failures=[])
        cg = subprocess.run(["goto-instrument", "--call-graph", gb], stdout=subprocess.PIPE, stderr=subprocess.DEVNULL).stdout.decode()
        graph = {}
        for line in cg.splitlines():
            m = re.match(r"^(\S+) -> (\S+)$", line)
            if m:
                graph.setdefault(m.group(1), set()).add(m.group(2))
        rec = sorted(x for x in _sccs(graph) if x in frames)
        if not {"cbor_decref", "cbor_copy", "cbor_serialize"} <= set(rec):
            return dict(undecided="call-graph analysis no longer finds the known recursive functions (found %r)" % rec, obligations=0, failures=[])
        fails, samples = [], []
        for fn in rec:
            size, kind, where = frames[fn]
            samples.append("%s: %d bytes, %s" % (fn, size, kind))
            if kind != "static":
                fails.append(dict(id="frame.%s" % fn, file=where,
                                  what="C19: recursive function %s has a %s stack frame (%d bytes + run-time part): native stack is no "
                                       "longer (constant per level) x depth" % (fn, kind, size)))
        return dict(obligations=len(rec), failures=fails, samples=samples[:12],
                    cmd="clang -O0 -fstack-usage <each library TU>; goto-instrument --call-graph (recursive = on a call-graph cycle)")
    finally:
        shutil.rmtree(tmp, ignore_errors=True)


def check_callback_table(spec):
    """C02 / A9 (supporting static fact): the function-local static table in cbor_load binds every slot of struct
    cbor_callbacks to the builder callback of the same name (the proofs cb_* verify those callbacks; K' assumes they
    are the ones the decoder calls)."""
    hdr = open(os.path.join(driver.SRC, "cbor", "callbacks.h")).read()
    m = re.search(r"struct\s+cbor_callbacks\s*\{(.*?)\n\};", hdr, flags=re.S)
    if not m:
        return dict(undecided="struct cbor_callbacks not found in callbacks.h", obligations=0, failures=[])
    body = re.sub(r"/\*.*?\*/", " ", m.group(1), flags=re.S)
    slots = re.findall(r"\bcbor_\w+_callback\s+(\w+)\s*;", body)
    if len(slots) < 20:
        return dict(undecided="could not parse the slots of struct cbor_callbacks", obligations=0, failures=[])
    src = open(os.path.join(driver.SRC, "cbor.c")).read()
    t = re.search(r"static\s+struct\s+cbor_callbacks\s+callbacks\s*=\s*\{(.*?)\};", src, flags=re.S)
    if not t:
        return dict(undecided="static callback table not found in cbor_load", obligations=0, failures=[])
    init = re.sub(r"/\*.*?\*/|//[^\n]*", " ", t.group(1), flags=re.S)
    pairs = re.findall(r"\.\s*(\w+)\s*=\s*&?\s*(\w+)", init)
    if len(pairs) != len(re.findall(r"=", init)):
        return dict(undecided="callback table initialiser has an unexpected shape", obligations=0, failures=[])
    fails, seen = [], {}
    for slot, fn in pairs:
        seen[slot] = fn
        if fn != "cbor_builder_%s_callback" % slot:
            fails.append(dict(id="table.%s" % slot, file=os.path.join(driver.SRC, "cbor.c"),
                              what="C02: cbor_load's callback table binds slot .%s to %s (expected cbor_builder_%s_callback)" % (slot, fn, slot)))
    for slot in slots:
        if slot not in seen:
            fails.append(dict(id="table.%s" % slot, file=os.path.join(driver.SRC, "cbor.c"),
                              what="C02: cbor_load's callback table leaves slot .%s unset (NULL): a head of that kind would call through a null pointer" % slot))
    return dict(obligations=len(slots), failures=fails, samples=["%d slots, each bound to cbor_builder_<slot>_callback" % len(slots)],
                cmd="textual check of the designated initialisers of cbor_load::callbacks against struct cbor_callbacks")


CHECKS = [
    dict(name="static_nm_scan", props=["C13"], fn=check_nm),
    dict(name="static_symbol_scan", props=["C17"], fn=check_statics),
    dict(name="static_recursive_frames", props=["C19"], fn=check_frames),
    dict(name="static_callback_table", props=["C02"], fn=check_callback_table),
]


def run(s):
    try:
        r = s["fn"](s)
        seen, uniq = set(), []
        for f in r.get("failures", []):
            if f["id"] not in seen:
                seen.add(f["id"])
                uniq.append(f)
        r["failures"] = uniq
        return r
    except Exception as e:
        return dict(undecided="static check crashed: %r" % (e,), obligations=0, failures=[])
