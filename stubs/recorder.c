#include "stubs/recorder.h"
struct verif_event_ghost g_ev;

#define REC(slot, ctx) do { g_ev_count++; g_ev_slot = (slot); g_ev_ctx = (ctx); } while (0)
void rec_uint8(void *c, uint8_t v) { REC(EV_UINT8, c); g_ev_arg = v; }
void rec_uint16(void *c, uint16_t v) { REC(EV_UINT16, c); g_ev_arg = v; }
void rec_uint32(void *c, uint32_t v) { REC(EV_UINT32, c); g_ev_arg = v; }
void rec_uint64(void *c, uint64_t v) { REC(EV_UINT64, c); g_ev_arg = v; }
void rec_negint8(void *c, uint8_t v) { REC(EV_NEGINT8, c); g_ev_arg = v; }
void rec_negint16(void *c, uint16_t v) { REC(EV_NEGINT16, c); g_ev_arg = v; }
void rec_negint32(void *c, uint32_t v) { REC(EV_NEGINT32, c); g_ev_arg = v; }
void rec_negint64(void *c, uint64_t v) { REC(EV_NEGINT64, c); g_ev_arg = v; }
void rec_bstr(void *c, cbor_data p, uint64_t n) { REC(EV_BSTR, c); g_ev_ptr = p; g_ev_arg = n; }
void rec_bstr_start(void *c) { REC(EV_BSTR_START, c); }
void rec_tstr(void *c, cbor_data p, uint64_t n) { REC(EV_TSTR, c); g_ev_ptr = p; g_ev_arg = n; }
void rec_tstr_start(void *c) { REC(EV_TSTR_START, c); }
void rec_array(void *c, uint64_t n) { REC(EV_ARRAY, c); g_ev_arg = n; }
void rec_indef_array(void *c) { REC(EV_INDEF_ARRAY, c); }
void rec_map(void *c, uint64_t n) { REC(EV_MAP, c); g_ev_arg = n; }
void rec_indef_map(void *c) { REC(EV_INDEF_MAP, c); }
void rec_tag(void *c, uint64_t v) { REC(EV_TAG, c); g_ev_arg = v; }
void rec_float2(void *c, float v) { REC(EV_FLOAT2, c); union { float f; uint32_t u; } x; x.f = v; g_ev_fbits = x.u; }
void rec_float4(void *c, float v) { REC(EV_FLOAT4, c); union { float f; uint32_t u; } x; x.f = v; g_ev_fbits = x.u; }
void rec_float8(void *c, double v) { REC(EV_FLOAT8, c); union { double f; uint64_t u; } x; x.f = v; g_ev_dbits = x.u; }
void rec_undef(void *c) { REC(EV_UNDEF, c); }
void rec_null(void *c) { REC(EV_NULL, c); }
void rec_bool(void *c, bool v) { REC(EV_BOOL, c); g_ev_bool = v; }
void rec_break(void *c) { REC(EV_BREAK, c); }
