/* CBMC 6.11 has no body for ldexp (needed by _cbor_decode_half).  Model: exact scaling by 2^e through
 * the IEEE-754 exponent field; the argument domain _cbor_decode_half can produce (integer mantissas
 * 0..2047, e in -24..5) is asserted.  Validated natively against libm in setup (bin/validate-ldexp). */
#include <stdint.h>
double ldexp(double x, int e) {
  __CPROVER_assert(e >= -1022 && e <= 1023, "ldexp model: exponent inside the modelled domain");
  union { double d; uint64_t u; } s;
  s.u = (uint64_t)(e + 1023) << 52; /* 2^e as a normal double */
  return x * s.d;
}
