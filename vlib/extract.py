"""Mechanical extraction of code regions from /repo's working tree, run on every proof build (never cached).

CBMC 6.11's goto-instrument cannot take a loop contract on cbor_load (it exhausts memory on either loop), so the
three regions of that function are verified as verbatim text placed in generated wrapper functions:

  cbor_load__prologue    the text between the static callback table and 'do {'     (empty-input exit, initial values);
                         the locals it declares are copied out through pointers by generated glue at its end
  cbor_load__iteration   the body of   do { BODY } while (stack.size > 0);      'goto error' leaves through a label
                         that returns true; falling out of BODY returns false
  cbor_load__exit        the text between the loop and the label 'error:'         (return context.root;)
  cbor_load__error_entry the text after the label 'error:' up to the clean-up loop (position = read)
  cbor_load__cleanup_iteration   the body of   while (stack.size > 0) { BODY }    (release one frame)
  cbor_load__error_exit  the text after the clean-up loop up to the end            (return NULL)

The only edits made to the copied text: the three locals that become parameters are renamed by whole-word token
substitution  stack -> (*verif_stack), context -> (*verif_context), callbacks -> (*verif_callbacks)  (member
designators '.stack' / '->stack' are left alone).  What the extraction DROPS and who covers it:
  * the two loop constructs: each condition must be textually 'stack.size > 0' (must-fire rule below); the loop rule
    (invariant holds at entry, is preserved by the iteration, exit condition, variant decreases) is meta-argument A2;
  * the static callback table (its 24 initialisers): what the table holds is assumption A9 of K';
  * nothing else: every other byte of the function's body is in one of the three regions (checked: the regions
    and the dropped parts tile the function body exactly).
Any rule that does not fire raises ExtractionFailed -> the proof is UNDECIDED (exit 2), never a pass or a violation.
"""
import os
import re


class ExtractionFailed(Exception):
    pass


def _match_brace(txt, i):
    """txt[i] == '{' -> index of the matching '}' (comments/strings/chars skipped)."""
    assert txt[i] == "{"
    depth = 0
    n = len(txt)
    j = i
    while j < n:
        c = txt[j]
        if txt.startswith("/*", j):
            j = txt.index("*/", j) + 2
            continue
        if txt.startswith("//", j):
            j = txt.index("\n", j)
            continue
        if c == '"' or c == "'":
            q = c
            j += 1
            while txt[j] != q:
                if txt[j] == "\\":
                    j += 1
                j += 1
            j += 1
            continue
        if c == "{":
            depth += 1
        elif c == "}":
            depth -= 1
            if depth == 0:
                return j
        j += 1
    raise ExtractionFailed("unbalanced braces")


def _strip_comments(t):
    t = re.sub(r"/\*.*?\*/", " ", t, flags=re.S)
    return re.sub(r"//[^\n]*", " ", t)


def _rename_locals(t):
    for name in ("stack", "context", "callbacks"):
        t = re.sub(r"(?<![\w.>])%s\b" % name, "(*verif_%s)" % name, t)
    return t


def cbor_load_parts(src_root, outdir):
    path = os.path.join(src_root, "cbor.c")
    txt = open(path).read()
    m = re.search(r"cbor_item_t\s*\*\s*cbor_load\s*\(\s*cbor_data\s+source\s*,\s*size_t\s+source_size\s*,\s*"
                  r"struct\s+cbor_load_result\s*\*\s*result\s*\)\s*\{", txt)
    if not m:
        raise ExtractionFailed("cbor_load(cbor_data source, size_t source_size, struct cbor_load_result *result) not found in src/cbor.c")
    b0 = m.end() - 1
    b1 = _match_brace(txt, b0)
    body = txt[b0 + 1:b1]
    code = _strip_comments(body)
    # rule 1: exactly one do-while, exactly one while loop besides it, exactly one label, no other loops/labels
    if len(re.findall(r"\bdo\s*\{", code)) != 1:
        raise ExtractionFailed("cbor_load: expected exactly one 'do {' loop")
    if len(re.findall(r"\bfor\s*\(", code)) != 0:
        raise ExtractionFailed("cbor_load: unexpected for loop")
    if len(re.findall(r"\bwhile\s*\(", code)) != 2:
        raise ExtractionFailed("cbor_load: expected exactly two 'while (' (loop condition + clean-up loop)")
    labels = [l for l in re.findall(r"^\s*([A-Za-z_]\w*)\s*:(?!:)", code, flags=re.M) if l not in ("default",)]
    if labels != ["error"]:
        raise ExtractionFailed("cbor_load: expected the single label 'error', found %r" % (labels,))
    gotos = set(re.findall(r"\bgoto\s+(\w+)", code))
    if gotos - {"error"}:
        raise ExtractionFailed("cbor_load: goto to an unknown label %r" % (gotos,))
    # locate regions in the original text (comments kept, text verbatim)
    d = re.search(r"\bdo\s*\{", body)
    lb0 = d.end() - 1
    lb1 = _match_brace(body, lb0)
    w = re.match(r"\s*while\s*\(\s*stack\s*\.\s*size\s*>\s*0\s*\)\s*;", body[lb1 + 1:])
    if not w:
        raise ExtractionFailed("cbor_load: loop condition is no longer 'stack.size > 0': " + body[lb1 + 1:lb1 + 60].strip())
    after_loop = lb1 + 1 + w.end()
    e = re.search(r"^\s*error\s*:", body[after_loop:], flags=re.M)
    if not e:
        raise ExtractionFailed("cbor_load: label error: not found after the loop")
    prologue = body[:d.start()]
    iteration = body[lb0 + 1:lb1]
    exit_part = body[after_loop:after_loop + e.start()]
    cleanup = body[after_loop + e.end():]
    cw = re.search(r"\bwhile\s*\(\s*stack\s*\.\s*size\s*>\s*0\s*\)\s*\{", cleanup)
    if not cw:
        raise ExtractionFailed("cbor_load: clean-up loop 'while (stack.size > 0) {' not found after the label")
    cb0 = cw.end() - 1
    cb1 = _match_brace(cleanup, cb0)
    err_entry, cleanup_iter, err_exit = cleanup[:cw.start()], cleanup[cb0 + 1:cb1], cleanup[cb1 + 1:]
    if re.search(r"\b(return|break|continue|goto)\b", _strip_comments(cleanup_iter)):
        raise ExtractionFailed("cbor_load: jump inside the clean-up loop body")
    if re.search(r"\breturn\b", _strip_comments(err_entry)):
        raise ExtractionFailed("cbor_load: return before the clean-up loop")
    # rule 2: prologue declares the locals the regions use, with the expected types
    pro = _strip_comments(prologue)
    for decl in (r"struct\s+_cbor_stack\s+stack\s*=", r"struct\s+_cbor_decoder_context\s+context\s*=",
                 r"struct\s+cbor_decoder_result\s+decode_result\s*;", r"static\s+struct\s+cbor_callbacks\s+callbacks\s*="):
        if not re.search(decl, pro):
            raise ExtractionFailed("cbor_load: prologue no longer declares /%s/" % decl)
    # rule 3: no declaration of further locals in the prologue that the regions could depend on
    decls = re.findall(r"^\s*(?:static\s+)?(?:struct\s+\w+|size_t|bool|int|unsigned|cbor_item_t\s*\*|uint\w+_t)\s+\**(\w+)\s*(?:=|;)", pro, flags=re.M)
    extra = set(decls) - {"stack", "context", "decode_result", "callbacks"}
    if extra:
        raise ExtractionFailed("cbor_load: prologue declares further locals %r (extraction rules must be re-derived)" % sorted(extra))
    # rule 4: the regions do not contain 'return' in the iteration (an early return would be lost)
    if re.search(r"\breturn\b", _strip_comments(iteration)):
        raise ExtractionFailed("cbor_load: 'return' inside the loop body")
    if "goto" in _strip_comments(cleanup) or "goto" in _strip_comments(exit_part):
        raise ExtractionFailed("cbor_load: goto outside the loop body")
    # prologue: everything after the static table declaration
    t = re.search(r"static\s+struct\s+cbor_callbacks\s+callbacks\s*=\s*\{", prologue)
    if not t or _strip_comments(prologue[:t.start()]).strip():
        raise ExtractionFailed("cbor_load: the function no longer begins with the static callback table")
    t1 = _match_brace(prologue, t.end() - 1)
    semi = re.match(r"\s*;", prologue[t1 + 1:])
    if not semi:
        raise ExtractionFailed("cbor_load: callback table initialiser not followed by ';'")
    pro_text = prologue[t1 + 1 + semi.end():]
    if re.search(r"\b(goto|while|for|do)\b", _strip_comments(pro_text)):
        raise ExtractionFailed("cbor_load: loop or goto in the prologue")
    params = ("cbor_data source, size_t source_size, struct cbor_load_result* result,\n"
              "    struct _cbor_stack* verif_stack, struct _cbor_decoder_context* verif_context, struct cbor_callbacks* verif_callbacks")
    out = os.path.join(outdir, "cbor_load_parts.c")
    with open(out, "w") as f:
        f.write("/* GENERATED on every run by vlib/extract.py from %s - verbatim regions of cbor_load */\n" % path)
        f.write('#include "cbor.h"\n#include "cbor/internal/builder_callbacks.h"\n#include "cbor/internal/loaders.h"\n\n')
        f.write("cbor_item_t* cbor_load__prologue(cbor_data source, size_t source_size, struct cbor_load_result* result,\n"
                "    struct _cbor_stack* verif_out_stack, struct _cbor_decoder_context* verif_out_context, bool* verif_entered) {\n"
                "  *verif_entered = false;\n")
        f.write(pro_text)
        f.write("\n  /* generated glue: hand the locals to the caller */\n"
                "  __CPROVER_assert(context.stack == &stack, \"C05,C02: the decoder context refers to this call's own stack\");\n"
                "  (void)decode_result;\n"
                "  *verif_out_stack = stack; *verif_out_context = context; verif_out_context->stack = verif_out_stack;\n"
                "  *verif_entered = true;\n  return NULL;\n}\n\n")
        f.write("bool cbor_load__iteration(%s) {\n  struct cbor_decoder_result decode_result;\n  {\n" % params)
        f.write(_rename_locals(iteration))
        f.write("\n  }\n  return false;\nerror:\n  return true;\n}\n\n")
        f.write("cbor_item_t* cbor_load__exit(%s) {\n" % params)
        f.write(_rename_locals(exit_part))
        f.write("\n}\n\n")
        f.write("void cbor_load__error_entry(%s) {\n" % params)
        f.write(_rename_locals(err_entry))
        f.write("\n}\n\n")
        f.write("void cbor_load__cleanup_iteration(%s) {\n" % params)
        f.write(_rename_locals(cleanup_iter))
        f.write("\n}\n\n")
        f.write("cbor_item_t* cbor_load__error_exit(%s) {\n" % params)
        f.write(_rename_locals(err_exit))
        f.write("\n}\n")
    return out


# ----------------------------------------------------------------------------------------------------------------
# cbor_copy: goto-instrument also exhausts memory (16 GB) when a loop contract is applied inside cbor_copy (four loops,
# one per composite kind).  Each loop and the straight-line text around it is extracted verbatim:
#   cbor_copy__<kind>_pre    text from the start of the innermost block that contains the loop up to 'for ('
#   cbor_copy__<kind>_cond   the loop condition (init must be 'size_t i = 0', step must be 'i++')
#   cbor_copy__<kind>_body   the loop body; a 'return' inside it returns from the wrapper with *verif_fell_through == false
#   cbor_copy__<kind>_post   text after the loop up to the end of that block
# Locals declared in the pre-region (res; it for maps) are handed on through pointer parameters by generated glue.
# Dropped: the 'for' construct itself (loop rule = A2) and the switch dispatch (proved on the real function for the
# leaf kinds, where the same switch is executed: copy_uint_*, copy_float_*, copy_def_*, copy_tag).
COPY_LOOPS = [
    # kind, locals exported by the pre-region (name, C type), declaration regexes that must be found in the pre-region
    ("bytestring", [("res", "cbor_item_t*")], [r"cbor_item_t\s*\*\s*res\s*="]),
    ("string", [("res", "cbor_item_t*")], [r"cbor_item_t\s*\*\s*res\s*="]),
    ("array", [("res", "cbor_item_t*")], [r"cbor_item_t\s*\*\s*res\s*;"]),
    ("map", [("res", "cbor_item_t*"), ("it", "struct cbor_pair*")], [r"cbor_item_t\s*\*\s*res\s*;", r"struct\s+cbor_pair\s*\*\s*it\s*="]),
]


def _enclosing_block_start(txt, pos):
    """index of the '{' of the innermost block that contains position pos (comments/strings are not expected to hold braces)."""
    depth = 0
    j = pos
    while j > 0:
        j -= 1
        if txt[j] == "}":
            depth += 1
        elif txt[j] == "{":
            if depth == 0:
                return j
            depth -= 1
    raise ExtractionFailed("no enclosing block")


def cbor_copy_parts(src_root, outdir):
    path = os.path.join(src_root, "cbor.c")
    txt = open(path).read()
    m = re.search(r"cbor_item_t\s*\*\s*cbor_copy\s*\(\s*cbor_item_t\s*\*\s*item\s*\)\s*\{", txt)
    if not m:
        raise ExtractionFailed("cbor_copy(cbor_item_t *item) not found in src/cbor.c")
    b0 = m.end() - 1
    b1 = _match_brace(txt, b0)
    body = txt[b0 + 1:b1]
    code = _strip_comments(body)
    if len(code) != len(body) and re.search(r"[{}]", "".join(re.findall(r"/\*.*?\*/|//[^\n]*", body, flags=re.S))):
        raise ExtractionFailed("cbor_copy: braces inside comments")
    fors = [x.start() for x in re.finditer(r"\bfor\s*\(", body)]
    if len(fors) != len(COPY_LOOPS) or re.search(r"\b(while|do|goto)\b", code):
        raise ExtractionFailed("cbor_copy: expected exactly %d for loops and no other loop/goto, found %d" % (len(COPY_LOOPS), len(fors)))
    # each loop must lie in the case arm of its kind (order of the arms in the switch)
    order = [("bytestring", "CBOR_TYPE_BYTESTRING"), ("string", "CBOR_TYPE_STRING"), ("array", "CBOR_TYPE_ARRAY"), ("map", "CBOR_TYPE_MAP")]
    out = os.path.join(outdir, "cbor_copy_parts.c")
    with open(out, "w") as f:
        f.write("/* GENERATED on every run by vlib/extract.py from %s - verbatim regions of cbor_copy */\n" % path)
        f.write('#include "cbor.h"\n#include "cbor/internal/builder_callbacks.h"\n#include "cbor/internal/loaders.h"\n\n')
        for (kind, locs, decls), pos, (okind, label) in zip(COPY_LOOPS, fors, order):
            last_case = [c for c in re.finditer(r"\bcase\s+(\w+)\s*:", body[:pos])]
            if not last_case or last_case[-1].group(1) != label:
                raise ExtractionFailed("cbor_copy: loop %s is not in the arm 'case %s'" % (kind, label))
            # header
            h0 = body.index("(", pos)
            depth, j = 0, h0
            while True:
                if body[j] == "(":
                    depth += 1
                elif body[j] == ")":
                    depth -= 1
                    if depth == 0:
                        break
                j += 1
            header = body[h0 + 1:j]
            parts = header.split(";")
            if len(parts) != 3 or not re.fullmatch(r"\s*size_t\s+i\s*=\s*0\s*", parts[0]) or not re.fullmatch(r"\s*i\s*\+\+\s*|\s*\+\+\s*i\s*", parts[2]):
                raise ExtractionFailed("cbor_copy: loop %s header is not 'size_t i = 0; <cond>; i++': %s" % (kind, header))
            cond = parts[1]
            lb = re.match(r"\s*\{", body[j + 1:])
            if not lb:
                raise ExtractionFailed("cbor_copy: loop %s body is not a block" % kind)
            lb0 = j + 1 + lb.end() - 1
            lb1 = _match_brace(body, lb0)
            loop_body = body[lb0 + 1:lb1]
            if re.search(r"\b(break|continue)\b", _strip_comments(loop_body)):
                raise ExtractionFailed("cbor_copy: break/continue in loop %s" % kind)
            blk0 = _enclosing_block_start(body, pos)
            blk1 = _match_brace(body, blk0)
            pre, post = body[blk0 + 1:pos], body[lb1 + 1:blk1]
            for d in decls:
                if not re.search(d, _strip_comments(pre)):
                    raise ExtractionFailed("cbor_copy: pre-region of loop %s no longer declares /%s/" % (kind, d))
            found = set(re.findall(r"^\s*(?:struct\s+\w+|size_t|bool|int|cbor_item_t)\s*\*?\s*(\w+)\s*(?:=|;)", _strip_comments(pre), flags=re.M))
            if found != {n for n, _ in locs}:
                raise ExtractionFailed("cbor_copy: pre-region of loop %s declares %r, expected %r" % (kind, sorted(found), [n for n, _ in locs]))
            if "case" in re.findall(r"\b\w+\b", _strip_comments(pre + post)):
                raise ExtractionFailed("cbor_copy: a case label inside the regions of loop %s" % kind)
            in_params = "".join(", %s %s" % (t, n) for n, t in locs)
            out_params = "".join(", %s* verif_%s" % (t, n) for n, t in locs)
            f.write("/* ---- %s ---- */\n" % kind)
            f.write("cbor_item_t* cbor_copy__%s_pre(cbor_item_t* item%s, bool* verif_fell_through) {\n  *verif_fell_through = false;\n" % (kind, out_params))
            f.write(pre)
            f.write("\n  /* generated glue */\n" + "".join("  *verif_%s = %s;\n" % (n, n) for n, _ in locs))
            f.write("  *verif_fell_through = true;\n  return NULL;\n}\n\n")
            f.write("bool cbor_copy__%s_cond(cbor_item_t* item%s, size_t i) {\n  return (%s);\n}\n\n" % (kind, in_params, cond.strip()))
            f.write("cbor_item_t* cbor_copy__%s_body(cbor_item_t* item%s, size_t i, cbor_item_t** verif_res, bool* verif_fell_through) {\n"
                    "  *verif_fell_through = false;\n  {\n" % (kind, in_params))
            f.write(loop_body)
            f.write("\n  }\n  /* generated glue */\n  *verif_res = res;\n  *verif_fell_through = true;\n  return NULL;\n}\n\n")
            f.write("cbor_item_t* cbor_copy__%s_post(cbor_item_t* item%s) {\n" % (kind, in_params))
            f.write(post)
            f.write("\n}\n\n")
    return out


EXTRACTORS = {"cbor_load_parts": cbor_load_parts, "cbor_copy_parts": cbor_copy_parts}
