/* Read-only API (C18): one predicate/getter (-DRO_FN) on a symbolic item built by -DRO_MK.
 * The contract's frame is empty; the allocator is forbidden. */
#include "harness/mkitem.h"
#include "stubs/alloc_model.h"

void harness(void) {
  VERIF_ALLOC_RESET();
  verif_bind_allocator();
  g_alloc_forbidden = true;
  cbor_item_t *it = RO_MK();
  (void)RO_FN(it);
  __CPROVER_assert(0, "COVER getter returned (precondition satisfiable)");
}
