/* Harnesses for constructors, setters, reference-count primitives and container operations.
 * Selected by -D; CALL / MK / PRE are passed as macro text from the registry. */
#include "harness/mkitem.h"
#include "stubs/alloc_model.h"
#include "spec/utf8.h"

uint64_t nondet_u64(void);
float nondet_float(void);
double nondet_double(void);
#include "contracts/unicode.h"

#define SETUP()                                                             \
  VERIF_ALLOC_RESET();                                                      \
  verif_bind_allocator();  \
  g_s.valid = false;                                                        \
  g_k = nondet_size();                                                      \
  __CPROVER_assume(g_k <= VERIF_MAXCNT) /* keeps base + g_k inside pointer arithmetic range */

#if defined(H_ITEM_OP)
/* one symbolic item `it` (built by MK, restricted by PRE), scalar arguments nd / ndf / ndd */
void harness(void) {
  SETUP();
  g_alloc_forbidden = true;
  cbor_item_t *it = MK();
  uint64_t nd = nondet_u64();
  float ndf = nondet_float();
  double ndd = nondet_double();
  __CPROVER_assume(PRE);
  CALL;
  __CPROVER_assert(0, "COVER operation returned (precondition satisfiable)");
}
#elif defined(H_CTOR)
/* a constructor / builder: every allocator request may be refused independently */
void harness(void) {
  SETUP();
  uint64_t nd = nondet_u64();
#ifdef CTOR_ARG_BOUND
  __CPROVER_assume(nd <= CTOR_ARG_BOUND);
#endif
  float ndf = nondet_float();
  double ndd = nondet_double();
  bool ndb = nondet_bool();
  cbor_item_t *r = CALL;
  __CPROVER_assert(r == NULL, "COVER constructed");
  __CPROVER_assert(r != NULL, "COVER allocation refused");
}
#elif defined(H_BUILD_STR)
/* cbor_build_bytestring / cbor_build_stringn: any length, source in an exactly-sized buffer, watched byte g_k */
void harness(void) {
  SETUP();
  size_t in_len = nondet_size();
  __CPROVER_assume(in_len <= VERIF_MAXOBJ);
  unsigned char *src = mk_block(in_len);
  g_s.valid = true;
  if (g_k < in_len) g_s.byte = src[g_k];
  cbor_item_t *r = CALL;
  __CPROVER_assert(r == NULL, "COVER constructed");
  __CPROVER_assert(r != NULL, "COVER allocation refused");
  __CPROVER_assert(!(r != NULL && g_k < in_len && in_len > 70000), "COVER long string built, watched byte inside");
}
#elif defined(H_BUILD_CSTR)
/* cbor_build_string: a NUL-terminated text of ANY length (strlen replaced by its assumed contract: no loop remains) */
void harness(void) {
  SETUP();
  size_t in_len = nondet_size();
  __CPROVER_assume(in_len < VERIF_MAXOBJ);
  unsigned char *src = mk_block(in_len + 1);
  __CPROVER_assume(src[in_len] == 0);
  __CPROVER_assume(g_j >= in_len || src[g_j] != 0);
  g_cs.valid = true; g_cs.base = (const char *)src; g_cs.len = in_len;
  g_s.valid = true;
  if (g_k < in_len) g_s.byte = src[g_k];
  cbor_item_t *r = cbor_build_string((const char *)src);
  __CPROVER_assert(r == NULL, "COVER constructed");
  __CPROVER_assert(r != NULL, "COVER allocation refused");
  __CPROVER_assert(!(r != NULL && g_k < in_len && in_len > 70000), "COVER long string built, watched byte inside");
  __CPROVER_assert(!(r != NULL && in_len == 0), "COVER empty text built");
}
#elif defined(H_STRING_SET_HANDLE)
void harness(void) {
  SETUP();
  g_alloc_forbidden = true;
  cbor_item_t *it = mk_def_string();
  size_t in_len = nondet_size();
  __CPROVER_assume(in_len <= VERIF_MAXOBJ);
  unsigned char *buf = mk_block(in_len);
  g_u_src = buf; g_u_len = in_len; g_u_calls = 0; g_u_count = 0; g_u_state = U_START;
  cbor_string_set_handle(it, buf, in_len);
  __CPROVER_assert(!(g_u_state == U_START && in_len > 0), "COVER valid text attached");
  __CPROVER_assert(!(g_u_state != U_START), "COVER invalid text attached");
}
#elif defined(H_BYTESTRING_SET_HANDLE)
void harness(void) {
  SETUP();
  g_alloc_forbidden = true;
  cbor_item_t *it = mk_def_bytestring();
  size_t in_len = nondet_size();
  unsigned char *buf = nondet_ptr();
  cbor_bytestring_set_handle(it, buf, in_len);
  __CPROVER_assert(0, "COVER returned");
}
#elif defined(H_TAG_SET_ITEM)
void harness(void) {
  SETUP();
  g_alloc_forbidden = true;
  cbor_item_t *tag = mk_tag(), *child = mk_any();
  cbor_tag_set_item(tag, child);
  __CPROVER_assert(0, "COVER returned");
}
#elif defined(H_TAG_ITEM)
void harness(void) {
  SETUP();
  g_alloc_forbidden = true;
  cbor_item_t *tag = mk_tag(), *child = mk_any();
  tag->metadata.tag_metadata.tagged_item = child;
  cbor_item_t *r = cbor_tag_item(tag);
  __CPROVER_assert(0, "COVER returned");
}
#elif defined(H_BUILD_TAG)
void harness(void) {
  SETUP();
  cbor_item_t *child = mk_any();
  cbor_item_t *r = cbor_build_tag(nondet_u64(), child);
  __CPROVER_assert(r == NULL, "COVER constructed");
  __CPROVER_assert(r != NULL, "COVER allocation refused");
}
#endif

/* ------------------------------------------------------------------ arrays */
#if defined(H_ARRAY_PUSH)
void harness(void) {
  SETUP();
  cbor_item_t *arr = mk_array(), *pushee = mk_elem();
  size_t in_alloc = arr->metadata.array_metadata.allocated, in_end = arr->metadata.array_metadata.end_ptr;
  bool in_def = arr->metadata.array_metadata.type == _CBOR_METADATA_DEFINITE;
  g_s.valid = true;
  if (g_k < in_end) g_s.item = ((cbor_item_t **)arr->data)[g_k];
  bool r = cbor_array_push(arr, pushee);
  __CPROVER_assert(!(r && g_k < in_end && in_end == in_alloc && !in_def), "COVER earlier element watched across a reallocation");
  __CPROVER_assert(!(in_def && !r), "COVER definite array full: refused");
  __CPROVER_assert(!(in_def && r), "COVER definite array accepts");
  __CPROVER_assert(!(!in_def && r && in_end < in_alloc), "COVER indefinite array with room");
  __CPROVER_assert(!(!in_def && r && in_end == in_alloc && in_alloc > 0), "COVER indefinite array grows by doubling");
  __CPROVER_assert(!(!in_def && r && in_alloc == 0), "COVER first growth from empty");
  __CPROVER_assert(!(!in_def && !r), "COVER growth refused by the allocator");
}
#elif defined(H_ARRAY_GET)
void harness(void) {
  SETUP();
  g_alloc_forbidden = true;
  cbor_item_t *arr = mk_array();
  size_t in_index = nondet_size();
  g_s.valid = true;
  if (in_index < arr->metadata.array_metadata.end_ptr) {
    cbor_item_t *el = mk_elem();
    ((cbor_item_t **)arr->data)[in_index] = el;
    g_s.refcount = el->refcount;
  }
  cbor_item_t *r = cbor_array_get(arr, in_index);
  __CPROVER_assert(r == NULL, "COVER in-range get");
  __CPROVER_assert(!(in_index >= arr->metadata.array_metadata.end_ptr), "COVER out-of-range get");
  __CPROVER_assert(!(in_index >= arr->metadata.array_metadata.allocated), "COVER index beyond capacity");
}
#elif defined(H_ARRAY_REPLACE)
void harness(void) {
  SETUP();
  cbor_item_t *arr = mk_array(), *value = mk_elem();
  size_t in_index = nondet_size();
  if (in_index < arr->metadata.array_metadata.end_ptr) {
    cbor_item_t *old = nondet_bool() ? value : mk_elem();
    __CPROVER_assume(old != value || value->refcount >= 2);
    ((cbor_item_t **)arr->data)[in_index] = old;
    g_s.item = old;
  }
  g_s.valid = true;
  bool r = cbor_array_replace(arr, in_index, value);
  __CPROVER_assert(!r, "COVER replaced");
  __CPROVER_assert(r, "COVER out-of-range replace refused");
  __CPROVER_assert(!(in_index == arr->metadata.array_metadata.end_ptr), "COVER index == size");
}
#elif defined(H_ARRAY_SET)
/* cbor_array_set is a three-way dispatcher over push and replace (both represented by their contracts);
 * its specification is asserted here instead of being a contract of its own: nothing in the library calls it,
 * and a contract with the union of both callees' conditional frames did not finish on any back end */
void harness(void) {
  SETUP();
  cbor_item_t *arr = mk_array(), *value = mk_elem();
  size_t in_index = nondet_size();
  size_t in_end = arr->metadata.array_metadata.end_ptr, in_alloc = arr->metadata.array_metadata.allocated;
  size_t in_rc = value->refcount;
  unsigned char *in_data = arr->data;
  if (in_index < in_end) {
    cbor_item_t *old = mk_elem();
    ((cbor_item_t **)arr->data)[in_index] = old;
    g_s.item = old;
  }
  g_s.valid = in_index < in_end; /* the snapshot describes slot in_index for the replace case */
  g_k = in_index;
  bool r = cbor_array_set(arr, in_index, value);
  if (in_index > in_end) {
    __CPROVER_assert(!r && arr->metadata.array_metadata.end_ptr == in_end && value->refcount == in_rc && arr->data == in_data,
                     "C12: set above size is refused and nothing changes (no holes)");
  } else if (in_index < in_end) {
    __CPROVER_assert(r && arr->metadata.array_metadata.end_ptr == in_end && ((cbor_item_t **)arr->data)[in_index] == value,
                     "C12: set below size replaces the element, size unchanged");
  } else if (r) {
    __CPROVER_assert(arr->metadata.array_metadata.end_ptr == in_end + 1 && ((cbor_item_t **)arr->data)[in_index] == value &&
                     value->refcount == in_rc + 1, "C12,C04: set at size appends (push)");
  } else {
    __CPROVER_assert(arr->metadata.array_metadata.end_ptr == in_end && value->refcount == in_rc && arr->data == in_data,
                     "C12,C06: refused push at size changes nothing");
  }
  __CPROVER_assert(arr->metadata.array_metadata.end_ptr <= arr->metadata.array_metadata.allocated, "C12: size never exceeds capacity");
  __CPROVER_assert(!(r && in_index < in_end), "COVER set replaces");
  __CPROVER_assert(!(r && in_index == in_end), "COVER set pushes at size");
  __CPROVER_assert(!(!r && in_index == in_end), "COVER push at size refused");
  __CPROVER_assert(!(in_index > in_end), "COVER set beyond size refused");
  (void)in_alloc;
}
#endif

/* ------------------------------------------------------------------ maps and chunked strings */
#if defined(H_MAP_ADD_KEY) || defined(H_MAP_ADD) || defined(H_MAP_ADD_VALUE)
void harness(void) {
  SETUP();
  cbor_item_t *map = mk_map(), *key = mk_elem(), *value = nondet_bool() ? key : mk_elem();
  size_t in_alloc = map->metadata.map_metadata.allocated, in_end = map->metadata.map_metadata.end_ptr;
  bool in_def = map->metadata.map_metadata.type == _CBOR_METADATA_DEFINITE;
#if defined(MAP_CASE_NOGROW)
  __CPROVER_assume(in_def || in_end < in_alloc); /* case split: no reallocation possible */
#elif defined(MAP_CASE_GROW)
  __CPROVER_assume(!in_def && in_end == in_alloc); /* case split: a full indefinite map */
#ifdef MAP_GROW_BOUND
  __CPROVER_assume(in_alloc <= MAP_GROW_BOUND);
#endif
#endif
  g_s.valid = true;
  if (g_k < in_end) { g_s.key = ((struct cbor_pair *)map->data)[g_k].key; g_s.value = ((struct cbor_pair *)map->data)[g_k].value; }
#if defined(MAP_LEMMA)
  /* Lemma style (no contract enforced on the function: with the conditional frame over the pair storage DFCC ran
   * out of memory on every back end): the clauses of the specification are asserted here on the real function. */
  size_t rc_key0 = key->refcount, rc_val0 = value->refcount, realloc0 = g_realloc_calls, live0 = g_live;
  unsigned char *data0 = map->data;
#endif
#if defined(H_MAP_ADD_KEY)
  bool r = _cbor_map_add_key(map, key);
#elif defined(H_MAP_ADD_VALUE)
  bool r = _cbor_map_add_value(map, value);
#else
  bool r = cbor_map_add(map, (struct cbor_pair){.key = key, .value = value});
#endif
#if defined(MAP_LEMMA)
  {
    struct _cbor_map_metadata *m = &map->metadata.map_metadata;
    struct cbor_pair *pairs = (struct cbor_pair *)map->data;
    if (in_def) {
      __CPROVER_assert(r == (in_end < in_alloc) && g_realloc_calls == realloc0 && m->allocated == in_alloc && map->data == data0,
                       "C12: a definite map accepts exactly as many pairs as were preallocated, then refuses; no reallocation");
    } else if (in_end < in_alloc) {
      __CPROVER_assert(r && g_realloc_calls == realloc0 && m->allocated == in_alloc && map->data == data0,
                       "C12: an indefinite map with room accepts without reallocating");
    } else {
      __CPROVER_assert(g_realloc_calls == realloc0 + 1 && g_last_req == (in_alloc == 0 ? 1 : 2 * in_alloc) * sizeof(struct cbor_pair),
                       "C12,C20: a full indefinite map issues exactly one reallocation request of exactly the doubled capacity");
      __CPROVER_assert(r ? m->allocated == (in_alloc == 0 ? 1 : 2 * in_alloc) : (g_refused && m->allocated == in_alloc),
                       "C12,C20: geometric growth; refused only by the allocator");
    }
    if (r) {
      __CPROVER_assert(m->end_ptr == in_end + 1 && m->end_ptr <= m->allocated && pairs[in_end].key == key,
                       "C12: the new pair is appended in order, size <= capacity");
#if defined(H_MAP_ADD_KEY)
      __CPROVER_assert(pairs[in_end].value == NULL && key->refcount == rc_key0 + 1, "C12,C04: key stored with no value yet; the map took one reference");
#else
      __CPROVER_assert(pairs[in_end].value == value &&
                       (key == value ? key->refcount == rc_key0 + 2 : (key->refcount == rc_key0 + 1 && value->refcount == rc_val0 + 1)),
                       "C12,C04: pair stored; the map took one reference on key and value each");
#endif
    } else {
      __CPROVER_assert(m->end_ptr == in_end && m->allocated == in_alloc && map->data == data0 && key->refcount == rc_key0 &&
                       value->refcount == rc_val0 && g_live == live0,
                       "C06,C12: a refused add leaves the map, the arguments and the allocator state exactly as before");
    }
    if (g_k < in_end)
      __CPROVER_assert(pairs[g_k].key == g_s.key && pairs[g_k].value == g_s.value, "C12: earlier pairs survive, across a reallocation too");
    __CPROVER_assert(m->allocated >= in_alloc, "C20,C12: capacity never shrinks");
  }
#endif
#if defined(MAP_CASE_NOGROW)
  __CPROVER_assert(!(in_def && !r), "COVER definite map full: refused");
  __CPROVER_assert(!(in_def && r), "COVER definite map accepts");
  __CPROVER_assert(!(!in_def && r && in_end < in_alloc), "COVER indefinite map with room");
#elif defined(MAP_CASE_GROW)
  __CPROVER_assert(!(r && in_alloc > 0), "COVER indefinite map grows by doubling");
  __CPROVER_assert(!(r && in_alloc == 0), "COVER first growth from empty");
  __CPROVER_assert(r, "COVER growth refused by the allocator");
#elif !defined(H_MAP_ADD_VALUE)
  __CPROVER_assert(!(in_def && !r), "COVER definite map full: refused");
  __CPROVER_assert(!(in_def && r), "COVER definite map accepts");
  __CPROVER_assert(!(!in_def && r && in_end < in_alloc), "COVER indefinite map with room");
  __CPROVER_assert(!(!in_def && r && in_end == in_alloc && in_alloc > 0), "COVER indefinite map grows by doubling");
  __CPROVER_assert(!(!in_def && r && in_alloc == 0), "COVER first growth from empty");
  __CPROVER_assert(!(!in_def && !r), "COVER growth refused by the allocator");
  __CPROVER_assert(!(r && g_k < in_end && in_end == in_alloc && !in_def), "COVER earlier pair watched across a reallocation");
#else
  __CPROVER_assert(!(r && g_k + 1 < in_end), "COVER earlier pair watched");
  __CPROVER_assert(!(r && g_k + 1 == in_end), "COVER last pair watched");
#endif
}
#elif defined(H_ADD_CHUNK)
void harness(void) {
  SETUP();
  cbor_item_t *str = MK(), *chunk = MKCHUNK();
  struct cbor_indefinite_string_data *d = (struct cbor_indefinite_string_data *)str->data;
  size_t in_cap = d->chunk_capacity, in_cnt = d->chunk_count;
  g_s.valid = true;
  if (g_k < in_cnt) g_s.item = d->chunks[g_k];
  bool r = ADD_CHUNK(str, chunk);
  __CPROVER_assert(!(r && in_cnt < in_cap), "COVER chunk table with room");
  __CPROVER_assert(!(r && in_cnt == in_cap && in_cap > 0), "COVER chunk table grows by doubling");
  __CPROVER_assert(!(r && in_cap == 0), "COVER first growth from empty");
  __CPROVER_assert(r, "COVER growth refused by the allocator");
  __CPROVER_assert(!(r && g_k < in_cnt && in_cnt == in_cap), "COVER earlier chunk watched across a reallocation");
}
#endif
