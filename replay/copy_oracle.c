/* Native search for a failing input of cbor_copy on the REAL code (ASan/UBSan build), used as the replay of failed
 * obligations in the copy layer (regions of cbor_copy, builders).  For every tree that cbor_load produces from a byte string
 * of length <= MAXLEN over an alphabet of head bytes (plus some hand-written nested items), it checks C11 / C06 / C04:
 *   the copy serializes to the same bytes; it shares no node with the source (the source is released first and the copy
 *   is then still serializable - ASan sees any use after free); releasing both returns the live-block count to zero;
 *   under an allocator that refuses the k-th request cbor_copy returns NULL, leaves nothing behind and the source intact.
 * Exit 0: no failure found.  Exit 3: failing input printed.  A finite sample: finding nothing proves nothing. */
#include <stdio.h>
#include <stdlib.h>
#include <string.h>
#include "cbor.h"

#ifndef MAXLEN
#define MAXLEN 4
#endif
static const unsigned char ALPHA[] = {0x00, 0x18, 0x20, 0x40, 0x41, 0x42, 0x5f, 0x60, 0x61, 0x62, 0x7f, 0x80, 0x81, 0x82, 0x9f,
                                      0xa0, 0xa1, 0xbf, 0xc0, 0xc1, 0xf4, 0xf6, 0xf9, 0xfa, 0xff, 0x01, 0x39};
#define NALPHA (sizeof ALPHA / sizeof ALPHA[0])

static long live, requests, refuse_at;
static int refused;
static void *o_malloc(size_t n) {
  if (refuse_at && ++requests == refuse_at) { refused = 1; return NULL; }
  void *p = malloc(n ? n : 1);
  if (p) live++;
  return p;
}
static void *o_realloc(void *q, size_t n) {
  if (refuse_at && ++requests == refuse_at) { refused = 1; return NULL; }
  void *p = realloc(q, n ? n : 1);
  if (p && !q) live++;
  return p;
}
static void o_free(void *p) { if (p) live--; free(p); }

static long checked, failures;
static void show(const char *why, const unsigned char *b, size_t n) {
  if (failures++ >= 5) return;
  printf("VIOLATED: %s\n  source item (%zu bytes):", why, n);
  for (size_t i = 0; i < n && i < 48; i++) printf(" %02x", b[i]);
  printf("\n");
}

static size_t ser(cbor_item_t *it, unsigned char **out) {
  size_t sz = 0;
  return cbor_serialize_alloc(it, out, &sz);
}

static void check_one(const unsigned char *b, size_t n) {
  struct cbor_load_result res;
  live = 0; requests = 0; refuse_at = 0; refused = 0;
  cbor_item_t *src = cbor_load(b, n, &res);
  if (src == NULL) return;
  checked++;
  unsigned char *s1 = NULL, *s2 = NULL, *s3 = NULL;
  size_t l1 = ser(src, &s1);
  long live_src = live;
  cbor_item_t *cp = cbor_copy(src);
  if (cp == NULL) { show("C11: cbor_copy failed although no allocation was refused", b, res.read); goto out; }
  if (cbor_refcount(cp) != 1) show("C11: the copy's reference count is not one", b, res.read);
  if (cbor_refcount(src) != 1) show("C11: the source's reference count changed", b, res.read);
  size_t l2 = ser(cp, &s2);
  if (l1 != l2 || memcmp(s1, s2, l1) != 0) show("C11: the copy does not serialize to the same bytes as the source", b, res.read);
  size_t l3 = ser(src, &s3);
  if (l3 != l1 || memcmp(s1, s3, l1) != 0) show("C11: the source changed under cbor_copy", b, res.read);
  /* independence: release the source first, then use and release the copy */
  cbor_decref(&src);
  if (s3) { o_free(s3); s3 = NULL; }
  l3 = ser(cp, &s3);
  if (l3 != l1 || memcmp(s1, s3, l1) != 0) show("C11: the copy is not independent of the source", b, res.read);
  cbor_decref(&cp);
out:
  if (s1) o_free(s1);
  if (s2) o_free(s2);
  if (s3) o_free(s3);
  if (src) cbor_decref(&src);
  if (live != 0) show("C04: blocks still allocated after releasing source and copy", b, res.read);
  /* allocation failure at every request of the copy */
  for (long k = 1; k <= 24; k++) {
    live = 0; requests = 0; refuse_at = 0; refused = 0;
    src = cbor_load(b, n, &res);
    unsigned char *t1 = NULL, *t2 = NULL;
    size_t m1 = ser(src, &t1);
    long before = live;
    requests = 0; refuse_at = k;
    cp = cbor_copy(src);
    refuse_at = 0;
    int hit = refused;
    if (hit) {
      if (cp != NULL) show("C06: cbor_copy returned an item although a request was refused", b, res.read);
      else if (live != before) show("C06: a failed cbor_copy left blocks allocated (or released part of the source)", b, res.read);
      size_t m2 = ser(src, &t2);
      if (m2 != m1 || memcmp(t1, t2, m1) != 0 || cbor_refcount(src) != 1) show("C06: a failed cbor_copy changed the source", b, res.read);
    }
    if (cp) cbor_decref(&cp);
    if (t1) o_free(t1);
    if (t2) o_free(t2);
    cbor_decref(&src);
    if (live != 0) show("C04,C06: blocks still allocated after the refused-copy run", b, res.read);
    if (!hit) break;
  }
}

int main(void) {
  cbor_set_allocs(o_malloc, o_realloc, o_free);
  unsigned char buf[MAXLEN];
  for (size_t len = 1; len <= MAXLEN; len++) {
    size_t idx[MAXLEN] = {0};
    for (;;) {
      for (size_t i = 0; i < len; i++) buf[i] = ALPHA[idx[i]];
      check_one(buf, len);
      size_t i = 0;
      while (i < len && ++idx[i] == NALPHA) idx[i++] = 0;
      if (i == len) break;
    }
  }
  static const unsigned char nested[][24] = {
      {0x9f, 0x82, 0x01, 0x61, 0x00, 0xa1, 0x61, 0x61, 0x5f, 0x41, 0x00, 0x42, 0x01, 0x02, 0xff, 0xc1, 0x7f, 0x61, 0x61, 0x60, 0xff, 0xff},
      {0xbf, 0x01, 0xa2, 0x02, 0x03, 0x04, 0x80, 0x05, 0xd8, 0x20, 0x9f, 0xfb, 0, 0, 0, 0, 0, 0, 0, 0, 0xff, 0xff},
      {0x85, 0x01, 0x02, 0x03, 0x04, 0x85, 0x01, 0x02, 0x03, 0x04, 0x9f, 0x01, 0x02, 0x03, 0x04, 0x05, 0x06, 0x07, 0x08, 0x09, 0xff},
      {0x65, 0x61, 0x62, 0x00, 0x63, 0x64},
      {0xa3, 0x01, 0x02, 0x03, 0x04, 0x05, 0xbf, 0x06, 0x07, 0x08, 0x09, 0x0a, 0x0b, 0x0c, 0x0d, 0x0e, 0x0f, 0xff}};
  for (size_t k = 0; k < sizeof nested / sizeof nested[0]; k++) check_one(nested[k], sizeof nested[k]);
  printf("copy_oracle: %ld decoded trees copied, %ld failures (alphabet %zu, length <= %d)\n", checked, failures, (size_t)NALPHA, MAXLEN);
  return failures ? 3 : 0;
}
