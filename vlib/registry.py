"""Registry of proofs: one entry per (function under contract, harness).  See DESIGN 2.3.

props maps a property id to the obligation kinds of this proof that count for it:
  "all" | list of kinds from driver.classify():
  postcondition precondition assigns frees loop safety cbor_assert assertion dfcc_internal
Harness assertions whose text starts with "Cnn[,Cmm]:" are attributed by that tag regardless."""

MEMLIB = ["cbor/internal/memory_utils.c"]
ALLOC_STUBS = ["stubs/alloc_model.c", "stubs/allocators_def.c"]

SAFETY = ["safety", "cbor_assert", "precondition", "dfcc_internal"]
FUNC = ["postcondition", "loop"]
FRAME = ["assigns", "frees"]

TRUSTED_BASE = [
    "A3: CBMC 6.11 C semantics, object/offset memory model (objects <= 2^40 bytes in these proofs), SAT back ends, DFCC instrumentation",
    "A4: CBMC libc models (malloc, realloc, free, memcpy, strlen, isnan) and the ldexp model in stubs/ldexp_model.c",
    "A5: the configured allocator is any implementation satisfying stubs/alloc_model.c (fresh disjoint blocks of the requested size; realloc preserves the common prefix; free only invalidates its argument)",
    "A6: generated configuration.h/cbor_export.h, little-endian path, DEBUG flavour (CBOR_ASSERT active), restrict ignored; the compiler building the shipped library is not verified",
    "A7: spec/*.h are the definition of 'per RFC 8949 / RFC 3629 / IEEE 754'",
]

MANIFEST_NOTES = ("Contract-based deductive verification of the unmodified libcbor sources with CBMC 6.11 DFCC. "
                  "Every check rebuilds goto binaries from /repo's working tree. Exit 0 = all obligations discharged, "
                  "1 = VIOLATION (failed obligation, counterexample replayed natively where a replay exists), "
                  "2 = UNDECIDED (tool failure / timeout / vacuity guard) - never reported as a violation. "
                  "Whole-tree / whole-history statements are inductions over discharged per-node / per-operation steps "
                  "and are labelled as meta-arguments in each evidence file.")

NOT_APPLICABLE = {}

PROPERTY_META = {}


def META(pid, **kw):
    PROPERTY_META[pid] = kw


META("C20",
     text="Unbounded proof for all 2^128 operand pairs: the real _cbor_safe_to_multiply/_cbor_safe_to_add/"
          "_cbor_safe_signaling_add/_cbor_alloc_multiple/_cbor_realloc_multiple are enforced against contracts "
          "stating 'guard true => mathematical product fits', 'sum exact or 0', 'granted block = exact product, one "
          "request'; growth sites and serialized-size accumulation are proved per function on top of these contracts.",
     note="Trusted: CBMC semantics and back ends, allocator model. 64-bit size_t only (no ILP32 headers in the image). "
          "Sums over children of composite items: per-step exact-or-0 is proved, the fold over all children is a meta-argument.",
     trusted=[], uncovered=["ILP32 re-run not possible in this image (no 32-bit libc headers): CHECK_LENGTH is trivially true on LP64"],
     meta=["fold of the exact-or-0 accumulation step over all children of a composite item"])

META("C08",
     text="Unbounded proof: the real cbor_stream_decode (loop-free, all 256 initial bytes, every buffer length up to "
          "2^40, every argument value including declared lengths up to 2^64-1) is enforced against a contract written "
          "from the property statement and RFC 8949 section 3, with a recording callback table: exactly one of "
          "FINISHED (one callback, matching kind, exact arguments, payload pointer inside the buffer, read = head+payload), "
          "NEDATA (no callback, read 0, buffer length < required <= head+payload) or ERROR (iff reserved/unsupported "
          "initial byte). Frame = recorder ghosts only (stateless, allocates nothing). Independence from trailing "
          "bytes is a relational harness over two buffers.",
     note="Trusted: CBMC, spec/head.h as the definition of an RFC 8949 head, ldexp model (validated natively in setup). "
          "Buffers are limited to 2^40 bytes by the object/offset pointer model.",
     trusted=[], uncovered=[], meta=[])

PROOFS = []


def P(**kw):
    # tier "experimental": registered for the record (attempted, does not finish on any back end), never run by a check
    kw.setdefault("tier", "quick")
    kw.setdefault("kind", "proof")
    PROOFS.append(kw)
    return kw



COMMON_NOTE = ("Trusted: CBMC 6.11 semantics/back ends/DFCC; allocator model (stubs/alloc_model.c); generated configuration.h; "
               "little-endian LP64 target; DEBUG flavour (CBOR_ASSERT active). ")
A1 = "A1: structural induction over finite acyclic item trees / decoder stacks is a meta-argument; CBMC proves each step (every node kind, arbitrary fan-out) against induction-hypothesis twins"
A2 = "A2: induction over sequences (heads consumed by cbor_load, API histories, client fragments) is a meta-argument over discharged per-step obligations"

META("C01",
     text="Every function brought under contract so far (streaming decoder, loaders, encoders, UTF-8 counter, item constructors/"
          "getters/setters, containers, cbor_decref per node kind, stack, serializers, cbor_copy per leaf kind) is enforced with "
          "CBMC's pointer/bounds/overflow/shift obligations and with every CBOR_ASSERT as an obligation (-DDEBUG=1), on fully "
          "symbolic inputs: buffers are exactly-sized heap objects of symbolic length, so any read outside the caller's buffer "
          "fails a pointer obligation; loops are closed by loop contracts with decreases clauses (termination).",
     note=COMMON_NOTE + "All 24 builder callbacks and every case of _cbor_builder_append are proved per transition (safety, "
          "CBOR_ASSERTs, frames for the non-array cases). cbor_load: goto-instrument runs out of memory on any loop contract for "
          "it, so its text is verified as six verbatim regions wrapped mechanically into functions on every run "
          "(vlib/extract.py: prologue, loop body, exit, error entry, clean-up loop body, error exit; only the two loop constructs "
          "and the static table are dropped) with the decoder represented by the assumed contract K''. The whole-input "
          "statement is therefore: every head-level step and every post-decode operation per node is safe; their composition "
          "over an input is the loop rule, a meta-argument (A2).",
     trusted=[A1, A2], uncovered=["composition of cbor_load's proved regions over the two loops: loop rule, meta-argument A2; K'' assumed",
                                  "cbor_describe: not under contract (only its stack frame, C19)"],
     meta=["tree-level statements by induction over per-node steps (A1)"])

META("C02",
     text="Per transition of the RFC 8949 well-formedness push-down automaton: (1) head level - the real cbor_stream_decode fires "
          "exactly the callback RFC 8949 section 3 prescribes with exactly the decoded arguments and rejects exactly the "
          "reserved/unsupported initial bytes; (2) every builder callback on the real code, any stack depth: a leaf head "
          "completes exactly one fresh item of the decoded type/width/value (checked as a precondition where the item is handed "
          "over); an opening head pushes exactly one frame holding a fresh item of the decoded kind/flavour/size with the number "
          "of members due (2n for maps), or completes an empty definite container at once; a definite string head adds a chunk "
          "to an open chunked string of the SAME major type (fresh buffer, not the input buffer, same bytes) or completes an "
          "item; break closes exactly an open indefinite item (a map only at even parity) else syntax error; (3) "
          "_cbor_builder_append for every kind of open item: root when nothing is open, definite countdown and storage order for "
          "arrays, key/value parity for maps, one child for tags, syntax error inside chunked strings, closing hands the "
          "complete container upwards (recursion through the induction-hypothesis twin); (4) the stack limit (C19).",
     note=COMMON_NOTE + "cbor_load itself is verified as verbatim regions extracted mechanically on every run (loop body: one decoder "
          "call on exactly the unread remainder, success only when the stack is empty after a head, the root returned); the "
          "composition over the sequence of heads is the loop rule, a meta-argument (A2), with the decoder+table represented by "
          "the assumed contract K''; the table's content is a static fact (static_callback_table). In the array/map cases of _cbor_builder_append the transition facts are asserted on the "
          "real function but its frame contract is not enforced (memory). Leaf/opener callbacks are run with a tag or nothing "
          "open (they never look at the open item).",
     trusted=[A1, A2], uncovered=["cbor_load loop composition: loop rule over the proved regions and transitions (meta-argument A2, K'' assumed)"],
     meta=["composition over the sequence of heads (A2)"])

META("C03",
     text="All 30 cbor_encode_* functions are proved to write exactly the RFC 8949 head (spec/head.h: big-endian, named width or "
          "shortest form, NaN canonical); encoder->decoder inverse is proved as a lemma over the two contracts; every "
          "cbor_serialize_* is proved per node kind: leaves write the head of the stored width/value, strings head+bytes, "
          "composites write start/head, then every child in storage order in contiguous windows (children through "
          "induction-hypothesis twins, arbitrary fan-out, loop contracts), then break for indefinite flavours.",
     note=COMMON_NOTE + "load(serialize(t)) == t and idempotence are structural inductions over these steps (A1) and the per-head "
          "inverse; they are not a single discharged obligation. Half floats: exactness is proved from the bit-pattern side (C15).",
     trusted=[A1, "A7: spec/head.h is the definition of the RFC 8949 head"],
     uncovered=["whole-tree round trip: meta-argument over per-node steps", "builder side of the round trip: see C02"],
     meta=["round trip by structural induction (A1)"])

META("C04",
     text="Per-operation reference-count deltas are postconditions of the real functions (incref +1, move -1, constructors 1, "
          "push/add/set_item/add_chunk +1 on the stored item only, replace +1/-1, get/tag_item +1 on the returned item); "
          "cbor_decref is proved per node kind with arbitrary fan-out: last release hands each of the node's blocks to the "
          "configured free exactly once (CBMC free-model obligations: live, offset 0, not twice) and releases every stored child "
          "exactly once (ghost hit counter at an arbitrary watched slot), non-last release frees nothing.",
     note=COMMON_NOTE + "The history-level invariant (refcount == number of references the rules say exist; nothing remains when all "
          "references are dropped) is induction over API calls with these per-operation steps (A2), not machine-checked. "
          "cbor_decref on maps is proved in lemma style (loop contract over the pair storage, harness assertions, frame not enforced).",
     trusted=[A1, A2], uncovered=["whole-history ownership graph: meta-argument"], meta=["history induction (A2)"])

META("C05",
     text="cbor_load's empty-input path is proved to return NULL with NODATA and every field of the result written (the result is "
          "arbitrary memory beforehand); ERROR <=> reserved/unsupported initial byte with nothing consumed, and NEDATA <=> the buffer "
          "ends inside head or payload, are postconditions of the real cbor_stream_decode for all buffers; prefix determinism "
          "(a shorter buffer never turns FINISHED into ERROR) is a lemma over that contract.",
     note=COMMON_NOTE + "Flag exactness is proved per callback (creation_failed only after a refused request, a refusing size guard or "
          "at the nesting limit; syntax_error exactly at a break that closes nothing and at a non-chunk completing inside a "
          "chunked string; rejected items are released). cbor_load's own text is proved as verbatim regions extracted on every "
          "run (vlib/extract.py): prologue (empty input: NODATA, every field written; else invariant established), loop body "
          "(exact cause -> code mapping in the order status, creation_failed, syntax_error; NOTENOUGHDATA without a decoder call "
          "when the input is exhausted with an item open; read advanced by exactly the decoder's count; progress), error entry "
          "(position = read), clean-up body (one decref + one frame freed per level), exits. The decoder with the builder "
          "table is the assumed contract K''. A failed obligation in this layer is replayed by a native sweep of the real "
          "cbor_load against an RFC 8949 reference (2.6 million short inputs + nesting towers + refused allocations).",
     trusted=[A2], uncovered=["loop rule over the proved regions of cbor_load (A2); K'' (decoder contract composed with the callback transitions) assumed"],
     meta=["composition over heads (A2)"])

META("C06",
     text="Every allocating function under contract is proved with an allocator model in which EACH request may be refused "
          "independently (subsumes 'k-th alone' and 'k-th and all later'): constructors/builders, container growth at every "
          "capacity (symbolic), stack push, cbor_copy of leaf kinds: failure through the documented channel, no safety obligation "
          "fails (no crash), arguments unchanged on failure (fields compared with their old values), and exact accounting of live "
          "blocks (ghost g_live) shows that everything allocated up to the failure was released.",
     note=COMMON_NOTE + "Also covered: every builder callback under allocation failure (refused leaf/opener/chunk: flag raised, nothing "
          "left allocated, nothing changed), cbor_serialize_alloc for leaves and definite strings (NULL buffer, size 0). "
          "cbor_copy of composite kinds is covered through its extracted regions (refused container, refused member copy, refused growth: everything made so far released once). Composition over a whole tree / input is by the steps (A1, A2).",
     trusted=[A1, A2], uncovered=["cbor_load as a whole under allocation failure (loop rule over its proved regions: A2)"],
     meta=[])

META("C07",
     text="Every cbor_encode_* and _cbor_encode_*: conditional frame object_upto(buffer, need) (so 'returns 0 having left the buffer "
          "untouched' and 'all bytes inside the buffer' are both frame obligations, checked on every store) and return == need or 0, "
          "for all values and all buffer sizes; every cbor_serialize_* : frame = the caller's buffer only, result <= n, success only "
          "with the exact total header + sum of child sizes (+break), failure only when the window is too small for what was "
          "attempted or a child size is not representable; cbor_serialized_size per node kind: exact total or 0.",
     note=COMMON_NOTE + "Agreement between cbor_serialize and cbor_serialized_size for composite nodes follows from both being proved "
          "equal to header + sum over the same children; the two sums are related by a meta-argument (same children, same order; "
          "both proofs establish the order). The dispatcher cbor_serialize is proved per node kind; cbor_serialize_alloc is proved "
          "(exact block, its CBOR_ASSERT(written == size) discharged) with exact contracts for leaves and definite strings and, for an "
          "item of any kind, over the hereditary size/serialization contracts USIZE (ser_alloc_any).",
     trusted=[A1], uncovered=["machine-checked equality of the two child sums at arbitrary fan-out"],
     meta=["equality of the two folds over the same children"])

META("C09",
     text="Lemmas over the C08 contract of the real cbor_stream_decode (so they hold for every buffer): prefix determinism (more "
          "buffered bytes never change a complete event; an event is determined by the bytes it reports as read; ERROR depends on "
          "the initial byte only) and progress (each wait asks for strictly more than is buffered and never for more than the pending "
          "item occupies; with `required` bytes buffered the next call delivers or asks for strictly more).",
     note=COMMON_NOTE + "The statement about a whole stream and a whole fragmentation is the induction over the client loop (A2) on top "
          "of these lemmas; no fragmentation is enumerated.",
     trusted=[A2], uncovered=[], meta=["client-loop induction (A2)"])

META("C10",
     text="One proof per encoder (33): exact bytes against spec/head.h for ALL values and buffer sizes; then, as a lemma over the "
          "encoder contract and the C08 decoder contract (both discharged on the real code), decoding the written bytes fires the "
          "matching callback once with the identical value and consumes exactly the bytes written; simple values other than "
          "20..23 are encoded per RFC 8949 3.3 and decode to ERROR (profile).",
     note=COMMON_NOTE + "Half floats are covered from the bit-pattern side in C15.", trusted=["A7: spec/head.h"], uncovered=[], meta=[])

META("C11",
     text="cbor_copy for every node kind. Leaf kinds on the real function: integers (each width, both signs), floats/simple values "
          "(each width), definite byte and text strings (incl. the bodies of cbor_build_bytestring / cbor_build_stringn: fresh "
          "buffer of exactly the length, same bytes at an arbitrary index), tags: the result is a fresh node (shares no node or "
          "buffer with the source) with reference count one and the same type/width/value/length/bytes/tag number. Composite "
          "kinds (arrays, maps, chunked byte/text strings) as verbatim regions of cbor_copy extracted mechanically on every run "
          "(vlib/extract.py): pre-region (fresh empty container of the same flavour, definite ones allocated for exactly the "
          "source's count, or NULL with nothing left), loop condition (exactly the source's member count), loop body (exactly "
          "member i is copied once through the induction-hypothesis twin and attached at position i; the copy is its only owner; "
          "earlier members untouched; on failure the partial copy and the member copy are released exactly once), post-region. "
          "Everywhere: the source node is unchanged and every transient reference taken on a child is given back.",
     note=COMMON_NOTE + "goto-instrument runs out of memory applying loop contracts inside cbor_copy, hence the region extraction; the "
          "for-loop rule over the proved regions is a meta-argument (A2); children by structural induction (A1, twin "
          "cbor_copy__child). In the map loop body cbor_map_add is represented by the storage-free part of its contract. "
          "'serializes to the same bytes' follows from shape equality and C03 (meta). Failed obligations in this layer are "
          "replayed by a native sweep (replay/copy_oracle.c: 328k decoded trees copied, compared, released, every allocation refused).",
     trusted=[A1, A2], uncovered=["for-loop rule over the extracted regions of cbor_copy (A2)", "cbor_build_string is proved with strlen replaced by an ASSUMED contract (returns the index of the first NUL)"],
     meta=["tree induction (A1)", "loop rule (A2)"])

META("C12",
     text="Containers against a list view (size, element at an arbitrary ghost index): definite push/add accept iff size < capacity and "
          "append, else refuse with everything unchanged; indefinite ones grow exactly when full, to exactly max(1, 2*capacity), with "
          "exactly one realloc request of exactly that many elements and none otherwise; earlier elements survive a reallocation; "
          "size <= capacity; get/replace/set refuse out-of-range indices without touching memory.",
     note=COMMON_NOTE + "Arrays and chunk tables: contracts enforced (frames included). Map add key / add pair: the same specification is "
          "asserted by the harness on the real functions (lemma style, thorough tier, 24 GB) because enforcing the frame over the "
          "pair storage ran out of memory; _cbor_map_add_value is contract-enforced. cbor_new_definite_array's slot-initialisation "
          "loop is a bounded stand-in (size <= 6). 'Logarithmically many reallocations' is arithmetic over the proved doubling law.",
     trusted=[A2], uncovered=["amortised reallocation count: arithmetic meta-argument"], meta=["history induction (A2)"])

META("C13",
     text="Static scan (nm -u of every library object compiled with clang -fno-builtin): no translation unit other than allocators.c "
          "references malloc/calloc/realloc/free/...; in every contract proof the library runs on the allocator model, libc's names "
          "inside library code are redirected to trap stubs whose bodies are assert(false), every release goes through CBMC's "
          "free-model obligations (live block, offset 0, once); the streaming decoder, all encoders, fixed-buffer serialization and "
          "size computation are proved with the allocator forbidden (any call fails an obligation).",
     note=COMMON_NOTE + "History-level bookkeeping is the C04 meta-argument; no concrete allocator is run.",
     trusted=[A2], uncovered=[], meta=[])

META("C14",
     text="Independence lemma over the C08 contract: for two different buffers that agree on the bytes a FINISHED result reports as read, "
          "the second call gives the identical result and event whatever follows; prefix lemma: an event is determined by the bytes it "
          "reports as read.",
     note=COMMON_NOTE + "cbor_load's loop facts are proved on its extracted loop body (load_iteration: one decoder call on exactly "
          "source+read with the remaining length, read advanced by exactly the decoder's count, nothing beyond the consumed bytes "
          "is looked at by cbor_load itself; load_exit: the root is returned when the stack empties). That the callbacks do not "
          "look beyond their arguments is their frame (cb_* proofs take the payload in an exactly-sized buffer). The "
          "sequence-splitting statement is an induction over items (A2).",
     trusted=[A2], uncovered=["loop rule for cbor_load (A2), K'' assumed"], meta=["induction over items (A2)"])

META("C15",
     text="Bit-precise (CBMC float-bv), all patterns symbolic: every one of the 65536 half patterns decodes (real _cbor_load_half) to "
          "exactly the IEEE-754 value (integer-only reference conversion) and re-encodes (real cbor_encode_half) to the original two "
          "bytes, NaN to 7E00; all 2^32 single and 2^64 double patterns: load is the identity on bits, encode is the identity except "
          "NaN -> canonical quiet NaN; cbor_encode_half is total for all 2^32 floats (3 bytes, no UB obligation, its CBOR_ASSERTs hold); "
          "item setters/getters/builders and cbor_serialize_float_ctrl preserve the stored bits.",
     note=COMMON_NOTE + "Trusted: the ldexp model (validated natively against libm over the whole argument set in bin/setup).",
     trusted=["A4: ldexp model"], uncovered=[], meta=[])

META("C16",
     text="Unbounded: (1) the DFA step _cbor_unicode_decode equals the RFC 3629 ABNF automaton step for all 9 states x 256 bytes; "
          "(2) the counting loop is closed by a loop contract in which a ghost 'reference run' of the RFC automaton is advanced once "
          "per byte, in order (asserted at every call site): result == number of scalar values iff the reference run ends at a scalar "
          "boundary, else 0 with BADCP, for buffers of any length; (3) cbor_string_set_handle stores data/length unchanged and the "
          "count or 0. Cross-check: exact count against a reference validator for every byte string of length <= 8 (16 thorough).",
     note=COMMON_NOTE + "spec/utf8.h is the definition of strict UTF-8 (written from the ABNF).",
     trusted=["A7: spec/utf8.h"], uncovered=["builder string callback never raising a flag because of content: see C02"], meta=[])

META("C17",
     text="Decides the sentence 'the library keeps no hidden mutable global state': (a) every contract frame (assigns) proved so far "
          "contains no static-lifetime object of the library, and DFCC checks every store against it; (b) symbol-table scan of the whole "
          "library: the only mutable static-lifetime objects are the three allocator pointers (written only by cbor_set_allocs) and "
          "cbor_load's callback table (never written); any new static, including function-local ones, is reported.",
     note="NO SCHEDULE IS EXPLORED: contracts here are sequential. Data-race freedom for unshared items follows from disjoint footprints "
          "(A8, textbook argument, not machine-checked). This is the weakest claim in the set.",
     level="proof", trusted=["A8: data-race freedom from disjoint footprints"], uncovered=["interleavings: not explored by this technique"],
     meta=["disjoint-footprint argument (A8)"])

META("C18",
     text="Empty frame __CPROVER_assigns() on all 53 predicates/getters that do not hand out a reference, and a frame consisting of the "
          "caller's output buffer only on every cbor_serialize_* and of nothing on cbor_serialized_size, per node kind with arbitrary "
          "fan-out; DFCC instruments each store, so a write that is undone before return fails an obligation.",
     note=COMMON_NOTE + "Tree-level statement by A1 (children through twins with the same frames).",
     trusted=[A1], uncovered=[], meta=["tree induction (A1)"])

META("C19",
     text="_cbor_stack_push/pop/init proved with a SYMBOLIC limit L >= 1 (configuration.h generated with CBOR_MAX_STACK_SIZE = a "
          "nondeterministic value): size == L => refused before any allocator request, nothing changes; size < L => exactly one frame "
          "pushed or the allocator's refusal reported; size <= L preserved.",
     note=COMMON_NOTE + "Every opener callback (7) is proved to push exactly one frame or raise creation_failed leaving nothing behind, and "
          "to raise it when the stack is at the limit (those proofs use the default L = 2048; the push itself is proved for "
          "symbolic L). cbor_load's mapping of the flag to MEMERROR positioned just past the head is proved on the extracted loop body "
          "(load_iteration). 'Within native stack proportional to L' is not decidable by contracts; the supporting static fact "
          "checked instead: every function on a call-graph cycle has a compile-time-constant frame (clang -fstack-usage), so "
          "stack use is (constant per level) x (depth); that each recursive call descends one nesting level is A1.",
     trusted=[A1, A2], uncovered=["native stack consumption in bytes: only the constant-frame fact is checked; recursion depth = nesting depth is argued (A1)"], meta=[])

# ------------------------------------------------------------------------------------------------
# L0 arithmetic (C20)

P(name="highest_bit", props={"C20": FUNC + FRAME, "C01": SAFETY},
  lib=MEMLIB, stubs=ALLOC_STUBS, contracts=["contracts/memory_utils.h"],
  harness="harness/memutils.c", defines=["H_HIGHEST_BIT"], enforce="_cbor_highest_bit",
  unwindset="_cbor_highest_bit_wrapped_for_contract_checking.0:66",
  must_exist=[r"_cbor_highest_bit\.postcondition\.1", r"_cbor_highest_bit.*\.unwind\.0"],
  note="width-bounded loop unwound completely (65 iterations max for a 64-bit operand): complete, not a bound on inputs")

P(name="safe_to_multiply", props={"C20": FUNC + FRAME, "C01": SAFETY},
  lib=MEMLIB, stubs=ALLOC_STUBS, contracts=["contracts/memory_utils.h"],
  harness="harness/memutils.c", defines=["H_SAFE_TO_MULTIPLY"], enforce="_cbor_safe_to_multiply",
  replace=["_cbor_highest_bit"], replay="memutils",
  must_exist=[r"_cbor_safe_to_multiply\.postcondition\.3"])

P(name="safe_to_add", props={"C20": FUNC + FRAME, "C01": SAFETY},
  lib=MEMLIB, stubs=ALLOC_STUBS, contracts=["contracts/memory_utils.h"],
  harness="harness/memutils.c", defines=["H_SAFE_TO_ADD"], enforce="_cbor_safe_to_add", replay="memutils",
  must_exist=[r"_cbor_safe_to_add\.postcondition\.1"])

P(name="safe_signaling_add", props={"C20": FUNC + FRAME, "C01": SAFETY},
  lib=MEMLIB, stubs=ALLOC_STUBS, contracts=["contracts/memory_utils.h"],
  harness="harness/memutils.c", defines=["H_SIGNALING_ADD"], enforce="_cbor_safe_signaling_add",
  replace=["_cbor_safe_to_add"], replay="memutils",
  must_exist=[r"_cbor_safe_signaling_add\.postcondition\.2"])

P(name="alloc_multiple", props={"C20": FUNC + FRAME, "C06": FUNC + FRAME, "C13": FUNC + FRAME, "C01": SAFETY},
  lib=MEMLIB, stubs=ALLOC_STUBS, contracts=["contracts/memory_utils.h"],
  harness="harness/memutils.c", defines=["H_ALLOC_MULTIPLE"], enforce="_cbor_alloc_multiple",
  replace=["_cbor_safe_to_multiply"], backend="cvc5",
  must_exist=[r"_cbor_alloc_multiple\.postcondition\.8"])

P(name="realloc_multiple", props={"C20": [], "C12": [], "C06": [], "C13": [], "C01": SAFETY},
  lib=MEMLIB, stubs=ALLOC_STUBS, contracts=["contracts/memory_utils.h"],
  harness="harness/memutils.c", defines=["H_REALLOC_MULTIPLE"], enforce=None,
  replace=["_cbor_safe_to_multiply"], also_verified=["_cbor_realloc_multiple"],
  min_covers=4, backend="cadical")

# ------------------------------------------------------------------------------------------------
# L1 streaming decoder (C08 and the properties that build on it)

STREAMLIB = ["cbor/streaming.c", "cbor/internal/loaders.c"]
REC_STUBS = ALLOC_STUBS + ["stubs/recorder.c", "stubs/ldexp_model.c"]

P(name="stream_decode_contract",
  # (C10: the encoder -> decoder inverse lemmas use this contract in place of the decoder: it must hold of the real one)
  props={"C08": FUNC + FRAME, "C01": SAFETY, "C13": [], "C09": FUNC, "C14": FUNC, "C02": FUNC, "C05": FUNC, "C10": FUNC, "C15": FUNC},
  lib=STREAMLIB, stubs=REC_STUBS, contracts=["contracts/streaming.h"], defines=["VERIF_STREAM_CONTRACT"],
  harness="harness/stream_decode.c", enforce="cbor_stream_decode", replay="stream_decode",
  must_exist=[r"cbor_stream_decode\.postcondition\.14", r"rec_uint8\.assigns\.1"], min_covers=10, cost=30)

# ------------------------------------------------------------------------------------------------
# L0 encoders (C07 frames and return values, C10/C03 exact bytes, C13 no allocation)

ENCLIB = ["cbor/encoding.c", "cbor/internal/encoders.c"]
ENC_PROPS = {"C07": FUNC + FRAME, "C10": FUNC, "C03": FUNC, "C01": SAFETY, "C13": []}


def ENC(fn, argt, calls, offset=False, extra_props=None, spec=(9, 0)):
    """spec = (mode, major-or-byte) for the native replay: mode 0 single byte, 1 8-bit variant, 2/4/8 fixed
    argument bytes, 9 shortest form, 16/32/64 floats."""
    d = ["ENC_FN=" + fn, "SPEC_MODE=%d" % spec[0], "SPEC_MAJOR_=%d" % (spec[1] if spec[0] else 0), "SPEC_BYTE=%d" % spec[1]]
    d.append("ENC_ARGT=" + argt if argt else "ENC_NOVAL")
    if offset:
        d.append("ENC_OFFSET")
    props = dict(ENC_PROPS)
    props.update(extra_props or {})
    P(name="enc_" + fn.replace("cbor_encode_", "").replace("_cbor_encode_", "internal_"), props=props,
      lib=ENCLIB, stubs=ALLOC_STUBS, contracts=["contracts/encoders.h"], harness="harness/encoder.c",
      defines=d, enforce=fn, replace=calls, replay="encoders",
      must_exist=[r"%s\.postcondition\.2" % fn.replace("_", "_"), r"\.assigns\.\d+"], min_covers=3, cost=3)


ENC("_cbor_encode_uint8", "uint8_t", [], offset=True, spec=(1, 0))
ENC("_cbor_encode_uint16", "uint16_t", [], offset=True, spec=(2, 0))
ENC("_cbor_encode_uint32", "uint32_t", [], offset=True, spec=(4, 0))
ENC("_cbor_encode_uint64", "uint64_t", [], offset=True, spec=(8, 0))
ENC("_cbor_encode_uint", "uint64_t", ["_cbor_encode_uint8", "_cbor_encode_uint16", "_cbor_encode_uint32", "_cbor_encode_uint64"], offset=True)
P(name="enc__byte", props=dict(ENC_PROPS), lib=ENCLIB, stubs=ALLOC_STUBS, contracts=["contracts/encoders.h"],
  harness="harness/encoder.c", defines=["ENC_FN=_cbor_encode_byte", "ENC_ARGT=uint8_t"], enforce="_cbor_encode_byte",
  must_exist=[r"_cbor_encode_byte\.postcondition\.2", r"\.assigns\.\d+"], min_covers=3, cost=3)
P(name="enc_bool", props=dict(ENC_PROPS), lib=ENCLIB, stubs=ALLOC_STUBS, contracts=["contracts/encoders.h"],
  harness="harness/encoder.c", defines=["ENC_FN=cbor_encode_bool", "ENC_ARGT=bool"], enforce="cbor_encode_bool",
  replace=["_cbor_encode_byte"], must_exist=[r"cbor_encode_bool\.postcondition\.2"], min_covers=3, cost=3)
for w, m in (("8", 1), ("16", 2), ("32", 4), ("64", 8)):
    ENC("cbor_encode_uint" + w, "uint%s_t" % w, ["_cbor_encode_uint" + w], spec=(m, 0))
    ENC("cbor_encode_negint" + w, "uint%s_t" % w, ["_cbor_encode_uint" + w], spec=(m, 1))
ENC("cbor_encode_uint", "uint64_t", ["_cbor_encode_uint"], spec=(9, 0))
ENC("cbor_encode_negint", "uint64_t", ["_cbor_encode_uint"], spec=(9, 1))
for f, mj in (("bytestring_start", 2), ("string_start", 3), ("array_start", 4), ("map_start", 5)):
    ENC("cbor_encode_" + f, "size_t", ["_cbor_encode_uint"], spec=(9, mj))
ENC("cbor_encode_tag", "uint64_t", ["_cbor_encode_uint"], spec=(9, 6))
for f, b in (("indef_bytestring_start", 0x5F), ("indef_string_start", 0x7F), ("indef_array_start", 0x9F),
             ("indef_map_start", 0xBF), ("break", 0xFF), ("null", 0xF6), ("undef", 0xF7)):
    ENC("cbor_encode_" + f, None, ["_cbor_encode_byte"], spec=(0, b))
ENC("cbor_encode_ctrl", "uint8_t", ["_cbor_encode_uint8"], spec=(1, 7))
ENC("cbor_encode_half", "float", ["_cbor_encode_uint16"], extra_props={"C15": FUNC + SAFETY}, spec=(16, 7))
ENC("cbor_encode_single", "float", ["_cbor_encode_uint32"], extra_props={"C15": FUNC + SAFETY}, spec=(32, 7))
ENC("cbor_encode_double", "double", ["_cbor_encode_uint64"], extra_props={"C15": FUNC + SAFETY}, spec=(64, 7))

# C10: encoder -> decoder inverse, as lemmas over the two contracts


def ENCDEC(fn, argt, slot, check):
    d = ["ENC_FN=" + fn, "DEC_SLOT=" + slot, "DEC_CHECK_" + check, "VERIF_STREAM_CONTRACT"]
    d.append("ENC_ARGT=" + argt if argt else "ENC_NOVAL")
    P(name="encdec_" + fn.replace("cbor_encode_", ""), props={"C10": [], "C03": []},
      lib=ENCLIB + STREAMLIB, stubs=REC_STUBS, contracts=["contracts/encoders.h", "contracts/streaming.h"],
      harness="harness/enc_dec.c", defines=d, enforce=None, replace=[fn, "cbor_stream_decode"],
      must_exist=[r"cbor_stream_decode\.precondition\.\d+"], min_covers=1, cost=3,
      note="lemma over contracts: both callees replaced")


for w in ("8", "16", "32", "64"):
    ENCDEC("cbor_encode_uint" + w, "uint%s_t" % w, "EV_UINT" + w, "ARG")
    ENCDEC("cbor_encode_negint" + w, "uint%s_t" % w, "EV_NEGINT" + w, "ARG")
ENCDEC("cbor_encode_uint", "uint64_t",
       "(in_value <= 0xff ? EV_UINT8 : in_value <= 0xffff ? EV_UINT16 : in_value <= 0xffffffffu ? EV_UINT32 : EV_UINT64)", "ARG")
ENCDEC("cbor_encode_negint", "uint64_t",
       "(in_value <= 0xff ? EV_NEGINT8 : in_value <= 0xffff ? EV_NEGINT16 : in_value <= 0xffffffffu ? EV_NEGINT32 : EV_NEGINT64)", "ARG")
ENCDEC("cbor_encode_bytestring_start", "size_t", "EV_BSTR", "STR")
ENCDEC("cbor_encode_string_start", "size_t", "EV_TSTR", "STR")
ENCDEC("cbor_encode_array_start", "size_t", "EV_ARRAY", "ARG")
ENCDEC("cbor_encode_map_start", "size_t", "EV_MAP", "ARG")
ENCDEC("cbor_encode_tag", "uint64_t", "EV_TAG", "ARG")
ENCDEC("cbor_encode_indef_bytestring_start", None, "EV_BSTR_START", "NONE")
ENCDEC("cbor_encode_indef_string_start", None, "EV_TSTR_START", "NONE")
ENCDEC("cbor_encode_indef_array_start", None, "EV_INDEF_ARRAY", "NONE")
ENCDEC("cbor_encode_indef_map_start", None, "EV_INDEF_MAP", "NONE")
ENCDEC("cbor_encode_break", None, "EV_BREAK", "NONE")
ENCDEC("cbor_encode_null", None, "EV_NULL", "NONE")
ENCDEC("cbor_encode_undef", None, "EV_UNDEF", "NONE")
ENCDEC("cbor_encode_bool", "bool", "EV_BOOL", "BOOL")
ENCDEC("cbor_encode_ctrl", "uint8_t", "EV_NONE", "CTRL")
ENCDEC("cbor_encode_single", "float", "EV_FLOAT4", "F32")
ENCDEC("cbor_encode_double", "double", "EV_FLOAT8", "F64")

# C15: floats keep their exact bits (real loaders + real encoders, loop-free, all patterns symbolic)
FLOATLIB = ENCLIB + ["cbor/internal/loaders.c"]
for nm, d in (("half", "H_HALF_ROUNDTRIP"), ("single", "H_SINGLE_ROUNDTRIP"), ("double", "H_DOUBLE_ROUNDTRIP")):
    P(name="float_%s_roundtrip" % nm, props={"C15": SAFETY, "C03": []}, lib=FLOATLIB,
      stubs=ALLOC_STUBS + ["stubs/ldexp_model.c"], contracts=[], harness="harness/floats.c", defines=[d],
      enforce=None, mode="plain", unwind=10, replay="floats", min_covers=2, cost=5,
      also_verified=["_cbor_load_%s" % ("float" if nm == "single" else nm), "_cbor_decode_half", "cbor_encode_" + nm],
      note="loop-free code, full symbolic domain: complete (the only loop is the 8-iteration byte assembly in the harness)")

# ------------------------------------------------------------------------------------------------
# C16: UTF-8 code point count
UNILIB = ["cbor/internal/unicode.c"]
UNI_STUBS = ALLOC_STUBS + ["stubs/unicode_ghost.c"]

P(name="utf8_step_bisimulation", props={"C16": FUNC + FRAME, "C01": SAFETY}, lib=UNILIB, stubs=UNI_STUBS,
  contracts=["contracts/unicode.h"], harness="harness/unicode.c", defines=["H_DECODE_STEP"],
  enforce="_cbor_unicode_decode", must_exist=[r"_cbor_unicode_decode\.postcondition\.2"], min_covers=4, cost=3, replay="utf8")

P(name="utf8_count_loop", props={"C16": FUNC + FRAME, "C01": SAFETY}, lib=UNILIB, stubs=UNI_STUBS,
  contracts=["contracts/unicode.h"], harness="harness/unicode.c", defines=["H_COUNT"],
  enforce="_cbor_unicode_codepoint_count", replace=["_cbor_unicode_decode/_cbor_unicode_decode__ghost"],
  loops="loops/unicode.json", loop_fingerprint={"_cbor_unicode_codepoint_count": 1},
  must_exist=[r"_cbor_unicode_codepoint_count\.loop_invariant_step\.\d+", r"_cbor_unicode_codepoint_count\.loop_decreases\.\d+",
              r"_cbor_unicode_codepoint_count\.postcondition\.4"], min_covers=4, cost=10)

P(name="utf8_count_bounded8", props={"C16": SAFETY}, lib=UNILIB, stubs=UNI_STUBS, contracts=[],
  harness="harness/unicode.c", defines=["H_COUNT_BOUNDED", "UTF8_BOUND=8"], enforce=None, mode="plain",
  unwind=10, kind="bounded", bound="all byte strings of length <= 8 (cross-check of the ghost-run argument)",
  replay="utf8", min_covers=2, cost=10)

P(name="utf8_count_bounded16", tier="thorough", props={"C16": SAFETY}, lib=UNILIB, stubs=UNI_STUBS, contracts=[],
  harness="harness/unicode.c", defines=["H_COUNT_BOUNDED", "UTF8_BOUND=16"], enforce=None, mode="plain",
  unwind=18, kind="bounded", bound="all byte strings of length <= 16", replay="utf8", min_covers=2, cost=60)

# ------------------------------------------------------------------------------------------------
# L2 items: read-only API (C18 empty frames, exact values)
ITEMLIB = ["cbor/common.c", "cbor/ints.c", "cbor/floats_ctrls.c", "cbor/strings.c", "cbor/bytestrings.c",
           "cbor/arrays.c", "cbor/maps.c", "cbor/tags.c", "cbor/internal/memory_utils.c", "cbor/internal/unicode.c"]
ITEM_STUBS = ALLOC_STUBS + ["stubs/ghost_k.c", "stubs/unicode_ghost.c"]
ITEM_CONTRACTS = ["contracts/items_ro.h"]

RO_FUNCS = {
    "mk_any": ["cbor_isa_uint", "cbor_isa_negint", "cbor_isa_bytestring", "cbor_isa_string", "cbor_isa_array",
               "cbor_isa_map", "cbor_isa_tag", "cbor_isa_float_ctrl", "cbor_is_int", "cbor_is_bool", "cbor_is_null",
               "cbor_is_undef", "cbor_is_float", "cbor_typeof", "cbor_refcount"],
    "mk_int": ["cbor_int_get_width", "cbor_get_uint8", "cbor_get_uint16", "cbor_get_uint32", "cbor_get_uint64", "cbor_get_int"],
    "mk_float_ctrl": ["cbor_float_get_width", "cbor_ctrl_value", "cbor_float_ctrl_is_ctrl", "cbor_float_get_float2",
                      "cbor_float_get_float4", "cbor_float_get_float8", "cbor_float_get_float", "cbor_get_bool"],
    "mk_bytestring": ["cbor_bytestring_length", "cbor_bytestring_handle", "cbor_bytestring_is_definite",
                      "cbor_bytestring_is_indefinite", "cbor_bytestring_chunks_handle", "cbor_bytestring_chunk_count"],
    "mk_string": ["cbor_string_length", "cbor_string_handle", "cbor_string_codepoint_count", "cbor_string_is_definite",
                  "cbor_string_is_indefinite", "cbor_string_chunks_handle", "cbor_string_chunk_count"],
    "mk_array": ["cbor_array_size", "cbor_array_allocated", "cbor_array_is_definite", "cbor_array_is_indefinite", "cbor_array_handle"],
    "mk_map": ["cbor_map_size", "cbor_map_allocated", "cbor_map_is_definite", "cbor_map_is_indefinite", "cbor_map_handle"],
    "mk_tag": ["cbor_tag_value"],
}
# callees replaced by contract inside each getter (a caller sees only the callee's contract)
RO_CALLS = {
    "cbor_is_int": ["cbor_isa_uint", "cbor_isa_negint"],
    "cbor_is_bool": ["cbor_isa_float_ctrl", "cbor_float_ctrl_is_ctrl", "cbor_ctrl_value"],
    "cbor_is_null": ["cbor_isa_float_ctrl", "cbor_float_ctrl_is_ctrl", "cbor_ctrl_value"],
    "cbor_is_undef": ["cbor_isa_float_ctrl", "cbor_float_ctrl_is_ctrl", "cbor_ctrl_value"],
    "cbor_is_float": ["cbor_isa_float_ctrl", "cbor_float_ctrl_is_ctrl"],
    "cbor_int_get_width": ["cbor_is_int"],
    "cbor_get_uint8": ["cbor_is_int", "cbor_int_get_width"], "cbor_get_uint16": ["cbor_is_int", "cbor_int_get_width"],
    "cbor_get_uint32": ["cbor_is_int", "cbor_int_get_width"], "cbor_get_uint64": ["cbor_is_int", "cbor_int_get_width"],
    "cbor_get_int": ["cbor_is_int", "cbor_int_get_width", "cbor_get_uint8", "cbor_get_uint16", "cbor_get_uint32", "cbor_get_uint64"],
    "cbor_float_get_width": ["cbor_isa_float_ctrl"],
    "cbor_ctrl_value": ["cbor_isa_float_ctrl", "cbor_float_get_width"],
    "cbor_float_ctrl_is_ctrl": ["cbor_isa_float_ctrl", "cbor_float_get_width"],
    "cbor_float_get_float2": ["cbor_is_float", "cbor_float_get_width"],
    "cbor_float_get_float4": ["cbor_is_float", "cbor_float_get_width"],
    "cbor_float_get_float8": ["cbor_is_float", "cbor_float_get_width"],
    "cbor_float_get_float": ["cbor_is_float", "cbor_float_get_width", "cbor_float_get_float2", "cbor_float_get_float4", "cbor_float_get_float8"],
    "cbor_get_bool": ["cbor_is_bool"],
}
for mk, fns in RO_FUNCS.items():
    for fn in fns:
        calls = RO_CALLS.get(fn)
        if calls is None:
            if fn.startswith("cbor_bytestring_"):
                calls = ["cbor_isa_bytestring"] + (["cbor_bytestring_is_definite"] if fn != "cbor_bytestring_is_definite" and ("indefinite" in fn or "chunk" in fn) else [])
                if "chunk" in fn:
                    calls.append("cbor_bytestring_is_indefinite")
            elif fn.startswith("cbor_string_"):
                calls = ["cbor_isa_string"] + (["cbor_string_is_definite"] if fn != "cbor_string_is_definite" and ("indefinite" in fn or "chunk" in fn) else [])
                if "chunk" in fn:
                    calls.append("cbor_string_is_indefinite")
            elif fn.startswith("cbor_array_"):
                calls = ["cbor_isa_array"]
            elif fn.startswith("cbor_map_"):
                calls = ["cbor_isa_map"] + (["cbor_map_is_definite"] if fn == "cbor_map_is_indefinite" else [])
            elif fn.startswith("cbor_tag_"):
                calls = ["cbor_isa_tag"]
            else:
                calls = []
        P(name="ro_" + fn.replace("cbor_", ""), props={"C18": FUNC + FRAME, "C01": SAFETY, "C13": [], "C17": FRAME},
          lib=ITEMLIB, stubs=ITEM_STUBS, contracts=ITEM_CONTRACTS, harness="harness/ro.c",
          defines=["RO_FN=" + fn, "RO_MK=" + mk], enforce=fn, replace=calls,
          must_exist=[r"%s\.postcondition\.1" % fn] if fn != "cbor_float_get_float" else [], min_covers=1, cost=2)

# ------------------------------------------------------------------------------------------------
# L2 items: constructors, setters, refcount primitives (C04, C06, C13)
OPS_CONTRACTS = ["contracts/items_ro.h", "contracts/items_ops.h", "contracts/memory_utils.h"]
OPS_PROPS = {"C04": FUNC + FRAME, "C06": FUNC + FRAME + SAFETY, "C13": FUNC, "C01": SAFETY, "C17": FRAME}


def OP(fn, defines, replace=(), props=None, name=None, must=1, covers=1, backend=None, **kw):
    P(name=name or ("op_" + fn.replace("cbor_", "")), props=dict(props or OPS_PROPS), lib=ITEMLIB, stubs=ITEM_STUBS,
      contracts=OPS_CONTRACTS, harness="harness/ops.c", defines=defines, enforce=fn, replace=list(replace),
      must_exist=[r"%s\.postcondition\.%d" % (fn, must)], min_covers=covers, cost=3,
      **(dict(backend=backend, **kw) if backend else kw))


OP("cbor_incref", ["H_ITEM_OP", "MK=mk_any", "PRE=1", "CALL=cbor_incref(it)"])
OP("cbor_move", ["H_ITEM_OP", "MK=mk_any", "PRE=1", "CALL=cbor_move(it)"])
for w, ct in (("8", "CBOR_INT_8"), ("16", "CBOR_INT_16"), ("32", "CBOR_INT_32"), ("64", "CBOR_INT_64")):
    OP("cbor_set_uint" + w, ["H_ITEM_OP", "MK=mk_int", "PRE=INT_WIDTH(it)==" + ct, "CALL=cbor_set_uint%s(it,(uint%s_t)nd)" % (w, w)],
       replace=["cbor_is_int", "cbor_int_get_width"])
    OP("cbor_new_int" + w, ["H_CTOR", "CALL=cbor_new_int%s()" % w], must=4, covers=2)
    OP("cbor_build_uint" + w, ["H_CTOR", "CALL=cbor_build_uint%s((uint%s_t)nd)" % (w, w)], must=4, covers=2,
       replace=["cbor_new_int" + w, "cbor_set_uint" + w, "cbor_mark_uint"])
    OP("cbor_build_negint" + w, ["H_CTOR", "CALL=cbor_build_negint%s((uint%s_t)nd)" % (w, w)], must=4, covers=2,
       replace=["cbor_new_int" + w, "cbor_set_uint" + w, "cbor_mark_negint"])
OP("cbor_mark_uint", ["H_ITEM_OP", "MK=mk_int", "PRE=1", "CALL=cbor_mark_uint(it)"], replace=["cbor_is_int"])
OP("cbor_mark_negint", ["H_ITEM_OP", "MK=mk_int", "PRE=1", "CALL=cbor_mark_negint(it)"], replace=["cbor_is_int"])
OP("cbor_set_float2", ["H_ITEM_OP", "MK=mk_float_ctrl", "PRE=FL_WIDTH(it)==CBOR_FLOAT_16", "CALL=cbor_set_float2(it,ndf)"],
   replace=["cbor_is_float", "cbor_float_get_width"], props=dict(OPS_PROPS, C15=FUNC))
OP("cbor_set_float4", ["H_ITEM_OP", "MK=mk_float_ctrl", "PRE=FL_WIDTH(it)==CBOR_FLOAT_32", "CALL=cbor_set_float4(it,ndf)"],
   replace=["cbor_is_float", "cbor_float_get_width"], props=dict(OPS_PROPS, C15=FUNC))
OP("cbor_set_float8", ["H_ITEM_OP", "MK=mk_float_ctrl", "PRE=FL_WIDTH(it)==CBOR_FLOAT_64", "CALL=cbor_set_float8(it,ndd)"],
   replace=["cbor_is_float", "cbor_float_get_width"], props=dict(OPS_PROPS, C15=FUNC))
OP("cbor_set_ctrl", ["H_ITEM_OP", "MK=mk_float_ctrl", "PRE=FL_WIDTH(it)==CBOR_FLOAT_0", "CALL=cbor_set_ctrl(it,(uint8_t)nd)"],
   replace=["cbor_isa_float_ctrl", "cbor_float_get_width"])
OP("cbor_set_bool", ["H_ITEM_OP", "MK=mk_float_ctrl",
                     "PRE=FL_WIDTH(it)==CBOR_FLOAT_0&&(it->metadata.float_ctrl_metadata.ctrl==20||it->metadata.float_ctrl_metadata.ctrl==21)",
                     "CALL=cbor_set_bool(it,nd&1)"], replace=["cbor_is_bool"])
for fn, call, rep in (
        ("cbor_new_ctrl", "cbor_new_ctrl()", []),
        ("cbor_new_null", "cbor_new_null()", ["cbor_new_ctrl", "cbor_set_ctrl"]),
        ("cbor_new_undef", "cbor_new_undef()", ["cbor_new_ctrl", "cbor_set_ctrl"]),
        ("cbor_build_bool", "cbor_build_bool(ndb)", ["cbor_build_ctrl"]),
        ("cbor_build_ctrl", "cbor_build_ctrl((uint8_t)nd)", ["cbor_new_ctrl", "cbor_set_ctrl"]),
        ("cbor_new_float2", "cbor_new_float2()", []), ("cbor_new_float4", "cbor_new_float4()", []),
        ("cbor_new_float8", "cbor_new_float8()", []),
        ("cbor_build_float2", "cbor_build_float2(ndf)", ["cbor_new_float2", "cbor_set_float2"]),
        ("cbor_build_float4", "cbor_build_float4(ndf)", ["cbor_new_float4", "cbor_set_float4"]),
        ("cbor_build_float8", "cbor_build_float8(ndd)", ["cbor_new_float8", "cbor_set_float8"]),
        ("cbor_new_definite_bytestring", "cbor_new_definite_bytestring()", []),
        ("cbor_new_definite_string", "cbor_new_definite_string()", []),
        ("cbor_new_indefinite_bytestring", "cbor_new_indefinite_bytestring()", []),
        ("cbor_new_indefinite_string", "cbor_new_indefinite_string()", []),
        ("cbor_new_tag", "cbor_new_tag(nd)", [])):
    OP(fn, ["H_CTOR", "CALL=" + call], replace=rep, must=4, covers=2,
       props=dict(OPS_PROPS, C15=FUNC) if "float" in fn else None)
OP("cbor_bytestring_set_handle", ["H_BYTESTRING_SET_HANDLE"], replace=["cbor_isa_bytestring", "cbor_bytestring_is_definite"])
OP("cbor_string_set_handle", ["H_STRING_SET_HANDLE"], replace=["cbor_isa_string", "cbor_string_is_definite", "_cbor_unicode_codepoint_count"],
   props=dict(OPS_PROPS, C16=FUNC + FRAME + ["cbor_assert"]), must=3, covers=2)
OP("cbor_tag_set_item", ["H_TAG_SET_ITEM"], replace=["cbor_isa_tag", "cbor_incref"])
OP("cbor_tag_item", ["H_TAG_ITEM"], replace=["cbor_isa_tag", "cbor_incref"])
OP("cbor_build_tag", ["H_BUILD_TAG"], replace=["cbor_new_tag", "cbor_tag_set_item"], must=4, covers=2)

# ------------------------------------------------------------------------------------------------
# L2 containers (C12 list view, C04 deltas, C06 atomicity, C20 growth arithmetic, C13 traffic)
CONT_CONTRACTS = ["contracts/items_ro.h", "contracts/items_ops.h", "contracts/memory_utils.h", "contracts/items_cont.h",
                  "contracts/refcount.h", "contracts/arrays2.h"]
# C01: the memory-safety argument for the decode path USES these contracts (capacity == what was allocated, slots inside the
# storage ...) at every call site, so a failed postcondition of a container operation / constructor breaks C01's argument too
CONT_PROPS = {"C12": FUNC + FRAME + SAFETY, "C04": FUNC + FRAME, "C06": FUNC + FRAME + SAFETY, "C13": FUNC, "C20": FUNC,
              "C01": SAFETY + ["postcondition"], "C17": FRAME}


def CONT(fn, defines, replace=(), must=1, covers=1, **kw):
    P(name="cont_" + fn.replace("cbor_", "").lstrip("_"), props=dict(CONT_PROPS), lib=ITEMLIB, stubs=ITEM_STUBS + ["stubs/decref_ghost.c"],
      contracts=CONT_CONTRACTS, harness="harness/ops.c", defines=defines, enforce=fn, replace=list(replace),
      must_exist=[r"%s\.postcondition\.%d" % (fn, must)], min_covers=covers, **kw)


CONT("cbor_new_indefinite_array", ["H_CTOR", "CALL=cbor_new_indefinite_array()"], must=4, covers=2, cost=3)
CONT("cbor_array_push", ["H_ARRAY_PUSH"], replace=["cbor_isa_array", "cbor_array_is_definite", "_cbor_safe_to_multiply", "cbor_incref"],
     must=8, covers=7, cost=60, timeout=900)
CONT("cbor_array_get", ["H_ARRAY_GET"], replace=["cbor_incref"], must=2, covers=3, cost=10, replay="array_get")
CONT("cbor_array_replace", ["H_ARRAY_REPLACE"], replace=["cbor_incref", "cbor_intermediate_decref/cbor_intermediate_decref__child"],
     must=4, covers=3, cost=120, backend="cvc5", timeout=900)
# cbor_array_set: specification asserted in the harness over the contracts of push and replace (see harness/ops.c)
P(name="cont_array_set", props={"C12": [], "C04": [], "C06": [], "C01": SAFETY}, lib=ITEMLIB, stubs=ITEM_STUBS + ["stubs/decref_ghost.c"],
  contracts=CONT_CONTRACTS, harness="harness/ops.c", defines=["H_ARRAY_SET"], enforce=None, also_verified=["cbor_array_set"],
  # push and replace are verified inlined here (their own contracts are discharged by cont_array_push / cont_array_replace):
  # replacing both by contract ran out of memory
  replace=["_cbor_safe_to_multiply", "cbor_intermediate_decref/cbor_intermediate_decref__child"],
  must_exist=[r"cbor_intermediate_decref.*\.precondition\.\d+"], min_covers=4, cost=120, timeout=900, mem_gb=20)
CONT("cbor_new_indefinite_map", ["H_CTOR", "CALL=cbor_new_indefinite_map()"], must=4, covers=2, cost=3)
# Maps: bounded stand-ins (pair storage of at most 4 pairs; everything else symbolic), see harness/mkitem.h mk_map.
MAP_BOUND = "maps with capacity <= 4 pairs (all fill levels, definite and indefinite, growth 0->1->2->4->8)"
# NOTE: cbor_map_handle must stay inlined: replaced by its contract it returns a pointer CBMC cannot resolve and every
# pair access then ranges over all objects (out of memory)
MAPKEY_REPL = ["cbor_isa_map", "cbor_map_is_definite", "_cbor_safe_to_multiply", "cbor_incref"]
P(tier="experimental", name="cont_map_add_key", props=dict(CONT_PROPS), lib=ITEMLIB,
  stubs=ITEM_STUBS + ["stubs/decref_ghost.c"], contracts=CONT_CONTRACTS, harness="harness/ops.c",
  defines=["H_MAP_ADD_KEY"], enforce="_cbor_map_add_key", replace=MAPKEY_REPL,
  must_exist=[r"_cbor_map_add_key\.postcondition\.8"], min_covers=7, cost=120, timeout=900)
P(tier="experimental", name="cont_map_add", props=dict(CONT_PROPS), lib=ITEMLIB,
  stubs=ITEM_STUBS + ["stubs/decref_ghost.c"], contracts=CONT_CONTRACTS, harness="harness/ops.c",
  defines=["H_MAP_ADD"], enforce="cbor_map_add", replace=["cbor_isa_map", "_cbor_map_add_key", "_cbor_map_add_value"],
  must_exist=[r"cbor_map_add\.postcondition\.6"], min_covers=7, cost=120, timeout=900)
P(tier="experimental", name="cont_map_add_key_bounded", kind="bounded", bound=MAP_BOUND, props=dict(CONT_PROPS), lib=ITEMLIB,
  stubs=ITEM_STUBS + ["stubs/decref_ghost.c"], contracts=CONT_CONTRACTS, harness="harness/ops.c",
  defines=["H_MAP_ADD_KEY", "VERIF_MAP_CAP=4"], enforce="_cbor_map_add_key", replace=MAPKEY_REPL,
  must_exist=[r"_cbor_map_add_key\.postcondition\.8"], min_covers=7, cost=120, timeout=900)
CONT("_cbor_map_add_value", ["H_MAP_ADD_VALUE"], replace=["cbor_isa_map", "cbor_incref"], must=2, covers=2, cost=30)
P(name="cont_map_add_value_bounded", tier="thorough", kind="bounded", bound=MAP_BOUND, props=dict(CONT_PROPS), lib=ITEMLIB,
  stubs=ITEM_STUBS + ["stubs/decref_ghost.c"], contracts=CONT_CONTRACTS, harness="harness/ops.c",
  defines=["H_MAP_ADD_VALUE", "VERIF_MAP_CAP=4"], enforce="_cbor_map_add_value", replace=["cbor_isa_map", "cbor_incref"],
  must_exist=[r"_cbor_map_add_value\.postcondition\.2"], min_covers=2, cost=30)
P(tier="experimental", name="cont_map_add_bounded", kind="bounded", bound=MAP_BOUND, props=dict(CONT_PROPS), lib=ITEMLIB,
  stubs=ITEM_STUBS + ["stubs/decref_ghost.c"], contracts=CONT_CONTRACTS, harness="harness/ops.c",
  defines=["H_MAP_ADD", "VERIF_MAP_CAP=4"], enforce="cbor_map_add", replace=["cbor_isa_map", "_cbor_map_add_key", "_cbor_map_add_value"],
  must_exist=[r"cbor_map_add\.postcondition\.6"], min_covers=7, cost=120, timeout=900)
CONT("cbor_bytestring_add_chunk", ["H_ADD_CHUNK", "MK=mk_indef_bytestring", "MKCHUNK=mk_def_bytestring", "ADD_CHUNK=cbor_bytestring_add_chunk"],
     replace=["cbor_isa_bytestring", "cbor_bytestring_is_indefinite", "cbor_bytestring_is_definite", "_cbor_safe_to_multiply", "cbor_incref"],
     must=6, covers=5, cost=60, timeout=900)
CONT("cbor_string_add_chunk", ["H_ADD_CHUNK", "MK=mk_indef_string", "MKCHUNK=mk_def_string", "ADD_CHUNK=cbor_string_add_chunk"],
     replace=["cbor_isa_string", "cbor_string_is_indefinite", "_cbor_safe_to_multiply", "cbor_incref"],
     must=6, covers=5, cost=60, timeout=900)

# cbor_decref: one step proof per node kind, children through the induction-hypothesis twin
DECREF_CONTRACTS = CONT_CONTRACTS
for kind, loops in (("UINT", False), ("NEGINT", False), ("FLOAT_CTRL", False), ("DEF_BYTESTRING", False), ("DEF_STRING", False),
                    ("INDEF_BYTESTRING", True), ("INDEF_STRING", True), ("ARRAY", True), ("TAG", False)):
    P(name="decref_" + kind.lower(), props={"C04": FUNC + FRAME + ["loop"], "C13": [], "C01": SAFETY, "C06": [], "C17": FRAME},
      lib=ITEMLIB, stubs=ITEM_STUBS + ["stubs/decref_ghost.c"], contracts=DECREF_CONTRACTS, harness="harness/decref.c",
      defines={"UINT": ["KIND_INT", "VERIF_INT_TYPE=CBOR_TYPE_UINT"], "NEGINT": ["KIND_INT", "VERIF_INT_TYPE=CBOR_TYPE_NEGINT"]}.get(kind, ["KIND_" + kind]) + ["VERIF_FIXED_NODES"],
      enforce="cbor_decref", twins={"cbor_decref": "cbor_decref__child"},
      # the one-line getters are verified inlined here: replacing them by contract turns the constant node type /
      # flavour into a nondeterministic value and makes symex explore every switch arm of cbor_decref
      replace=["cbor_decref__child"],
      loops="loops/decref.json", loop_fingerprint={"cbor_decref": 4},
      must_exist=[r"cbor_decref\.postcondition\.4"] + ([r"cbor_decref\.loop_invariant_step\.\d+"] if loops else []),
      min_covers=2, cost=60, timeout=900, object_bits=10)

# cbor_build_bytestring / cbor_build_stringn bodies (used by cbor_copy and by clients): fresh node + fresh buffer of exactly
# `length` bytes holding the same bytes (ghost index), clean failure
BUILDSTR_PROPS = {"C11": FUNC, "C06": FUNC + FRAME, "C13": FUNC + FRAME, "C01": SAFETY, "C20": SAFETY, "C04": FUNC}
P(name="op_build_bytestring", replay="copy_oracle", props=dict(BUILDSTR_PROPS), lib=ITEMLIB, stubs=ITEM_STUBS + ["stubs/copy_ghost.c"],
  contracts=OPS_CONTRACTS + ["contracts/copy.h"], harness="harness/ops.c",
  defines=["H_BUILD_STR", "CALL=cbor_build_bytestring(src,in_len)"], enforce="cbor_build_bytestring",
  replace=["cbor_new_definite_bytestring"], unwind=6,   # no loop in the function: memcpy is a built-in; a library loop model (strncpy ...) is cut at 6
  must_exist=[r"cbor_build_bytestring\.postcondition\.4"], min_covers=3, cost=20)
P(name="op_build_stringn", replay="copy_oracle", props=dict(BUILDSTR_PROPS, C16=[]), lib=ITEMLIB, stubs=ITEM_STUBS + ["stubs/copy_ghost.c"],
  contracts=OPS_CONTRACTS + ["contracts/copy.h"], harness="harness/ops.c",
  defines=["H_BUILD_STR", "CALL=cbor_build_stringn((const char*)src,in_len)"], enforce="cbor_build_stringn",
  replace=["cbor_new_definite_string", "_cbor_unicode_codepoint_count/_cbor_unicode_codepoint_count__plain"], unwind=6,
  must_exist=[r"cbor_build_stringn\.postcondition\.4"], min_covers=3, cost=20)

# cbor_build_string: the same facts for the NUL-terminated entry point, strlen replaced by its ASSUMED contract (first NUL)
P(name="op_build_string", props=dict({"C11": FUNC, "C06": FUNC + FRAME, "C13": FUNC + FRAME}), lib=ITEMLIB, stubs=ITEM_STUBS + ["stubs/copy_ghost.c"],
  contracts=OPS_CONTRACTS + ["contracts/copy.h"], harness="harness/ops.c",
  defines=["H_BUILD_CSTR"], enforce="cbor_build_string",
  replace=["cbor_new_definite_string", "_cbor_unicode_codepoint_count/_cbor_unicode_codepoint_count__plain", "strlen"], unwind=6,
  must_exist=[r"cbor_build_string\.postcondition\.4"], min_covers=4, cost=20)

# ------------------------------------------------------------------------------------------------
# L1 decoding stack with a symbolic nesting limit (C19)
STACKLIB = ["cbor/internal/stack.c"]
STACK_CONTRACTS = ["contracts/items_ro.h", "contracts/items_ops.h", "contracts/memory_utils.h", "contracts/items_cont.h", "contracts/stack.h"]
for nm, d, fn, must, cov in (("init", "H_STACK_INIT", "_cbor_stack_init", 1, 1), ("push", "H_STACK_PUSH", "_cbor_stack_push", 6, 7),
                             ("pop", "H_STACK_POP", "_cbor_stack_pop", 2, 1)):
    P(name="stack_" + nm, props={"C19": FUNC + FRAME, "C02": FUNC, "C06": FUNC + FRAME, "C13": FUNC, "C01": SAFETY, "C17": FRAME, "C04": FUNC},
      lib=STACKLIB, stubs=ITEM_STUBS + ["stubs/stack_limit.c"], contracts=STACK_CONTRACTS, harness="harness/stack.c",
      defines=[d, "CBOR_MAX_STACK_SIZE_IS_SYMBOLIC"], stack_symbolic=True, enforce=fn,
      must_exist=[r"%s\.postcondition\.%d" % (fn, must)], min_covers=cov, cost=5)

# C09 / C14: relational lemmas over the cbor_stream_decode contract
P(name="stream_prefix_progress_lemmas", props={"C09": [], "C14": [], "C08": []}, lib=STREAMLIB, stubs=REC_STUBS,
  contracts=["contracts/streaming.h"], defines=["VERIF_STREAM_CONTRACT", "H_PREFIX"], harness="harness/stream_rel.c",
  enforce=None, replace=["cbor_stream_decode"], must_exist=[r"cbor_stream_decode\.precondition\.\d+"], min_covers=3, cost=20)
P(name="stream_independence_lemma", props={"C14": [], "C08": [], "C09": []}, lib=STREAMLIB, stubs=REC_STUBS,
  contracts=["contracts/streaming.h"], defines=["VERIF_STREAM_CONTRACT", "H_INDEPENDENCE"], harness="harness/stream_rel.c",
  enforce=None, replace=["cbor_stream_decode"], unwind=10, must_exist=[r"cbor_stream_decode\.precondition\.\d+"], min_covers=2, cost=20)

# ------------------------------------------------------------------------------------------------
# L3 serialization (C03, C07, C18, C20): per node kind, children through twins
SERLIB = ITEMLIB + ["cbor/serialization.c", "cbor/encoding.c", "cbor/internal/encoders.c"]
SER_STUBS = ITEM_STUBS + ["stubs/ser_ghost.c"]
SER_CONTRACTS = ["contracts/items_ro.h", "contracts/items_ops.h", "contracts/memory_utils.h", "contracts/items_cont.h",
                 "contracts/encoders.h", "contracts/serialization.h"]
SER_TWINS = {"cbor_serialize": "cbor_serialize__child", "cbor_serialized_size": "cbor_serialized_size__child",
             "cbor_serialize_bytestring": "cbor_serialize_bytestring__child", "cbor_serialize_string": "cbor_serialize_string__child"}
SER_PROPS = {"C03": FUNC + ["loop"], "C07": FUNC + FRAME + ["loop"], "C18": FRAME, "C20": [], "C13": [], "C01": SAFETY, "C17": FRAME}
ENC_ALL = ["cbor_encode_uint8", "cbor_encode_uint16", "cbor_encode_uint32", "cbor_encode_uint64", "cbor_encode_negint8",
           "cbor_encode_negint16", "cbor_encode_negint32", "cbor_encode_negint64", "cbor_encode_bytestring_start",
           "cbor_encode_string_start", "cbor_encode_array_start", "cbor_encode_map_start", "cbor_encode_tag",
           "cbor_encode_indef_bytestring_start", "cbor_encode_indef_string_start", "cbor_encode_indef_array_start",
           "cbor_encode_indef_map_start", "cbor_encode_break", "cbor_encode_ctrl", "cbor_encode_half", "cbor_encode_single",
           "cbor_encode_double"]


def SER(name, nodekind, fn, top=None, size=False, extra_defs=(), must=2, covers=2, props=None, loops=True, **kw):
    P(name="ser_" + name, props=dict(props or SER_PROPS), lib=SERLIB, stubs=SER_STUBS, contracts=SER_CONTRACTS,
      harness="harness/serialize.c",
      defines=["SER_KIND_" + nodekind, "SER_FN=" + (top or fn), "VERIF_FIXED_NODES"] + (["SER_SIZE"] if size else []) + list(extra_defs),
      enforce=fn, twins=SER_TWINS,
      replace=list(SER_TWINS.values()) + ENC_ALL + ["_cbor_safe_signaling_add", "_cbor_encoded_header_size"],
      loops="loops/serialization.json" if loops else None,
      loop_fingerprint={"cbor_serialize_array": 1, "cbor_serialize_map": 1, "cbor_serialize_string": 1,
                        "cbor_serialize_bytestring": 1, "cbor_serialized_size": 4} if loops else None,
      must_exist=[r"%s\.postcondition\.%d" % (fn, must)], min_covers=covers, cost=60, timeout=1800, object_bits=10, **kw)


P(name="ser_encoded_header_size", props={"C07": FUNC + FRAME, "C20": FUNC, "C03": FUNC, "C01": SAFETY}, lib=SERLIB, stubs=SER_STUBS,
  contracts=SER_CONTRACTS, harness="harness/memutils.c", defines=["H_HEADER_SIZE"], enforce="_cbor_encoded_header_size",
  must_exist=[r"_cbor_encoded_header_size\.postcondition\.1"], min_covers=1, cost=3)
for w in ("0", "1", "2", "3"):
    SER("uint_w" + w, "INT", "cbor_serialize_uint", extra_defs=["VERIF_INT_WIDTH=" + w, "VERIF_INT_TYPE=CBOR_TYPE_UINT"], loops=False)
    SER("negint_w" + w, "INT", "cbor_serialize_negint", extra_defs=["VERIF_INT_WIDTH=" + w, "VERIF_INT_TYPE=CBOR_TYPE_NEGINT"], loops=False)
    SER("float_ctrl_w" + w, "FLOAT_CTRL", "cbor_serialize_float_ctrl", extra_defs=["VERIF_FLOAT_WIDTH=" + w], must=5, loops=False,
        props=dict(SER_PROPS, C15=FUNC))
SER("array", "ARRAY", "cbor_serialize_array", must=6, covers=4)
SER("map_bounded", "MAP", "cbor_serialize_map", must=6, covers=4, extra_defs=["VERIF_MAP_CAP=4"], kind="bounded", bound=MAP_BOUND, tier="experimental")
SER("tag", "TAG", "cbor_serialize_tag", must=5, covers=2, replay="tag_readonly")
SER("def_bytestring", "DEF_BYTESTRING", "cbor_serialize_bytestring", top="cbor_serialize_bytestring__top", must=6)
SER("indef_bytestring", "INDEF_BYTESTRING", "cbor_serialize_bytestring", top="cbor_serialize_bytestring__top", must=6, covers=4)
SER("def_string", "DEF_STRING", "cbor_serialize_string", top="cbor_serialize_string__top", must=6)
SER("indef_string", "INDEF_STRING", "cbor_serialize_string", top="cbor_serialize_string__top", must=6, covers=4)
for kind in ("INT", "FLOAT_CTRL", "DEF_BYTESTRING", "DEF_STRING", "INDEF_BYTESTRING", "INDEF_STRING", "ARRAY", "MAP", "TAG"):
    SER("size_" + kind.lower() + ("_bounded" if kind == "MAP" else ""), kind, "cbor_serialized_size", top="cbor_serialized_size__top", size=True, must=8,
        **(dict(extra_defs=["VERIF_MAP_CAP=4"], kind="bounded", bound=MAP_BOUND) if kind == "MAP" else {}),
        covers=1 if kind in ("INT", "FLOAT_CTRL", "DEF_BYTESTRING", "DEF_STRING") else 2 if kind == "TAG" else 3,
        props={"C07": FUNC + ["loop"], "C20": FUNC + ["loop"], "C18": FRAME, "C13": [], "C01": SAFETY, "C17": FRAME},
        replay="tag_readonly" if kind == "TAG" else None)

# the map size proof above is capacity-bounded (<= 4), so a confusion of pair COUNT and CAPACITY in the head width stays
# inside one head class there (seed C07e).  This one takes an EMPTY map of ANY capacity (no pair storage is read):
# cbor_serialized_size == the shortest head of the pair count (0), whatever the capacity - unbounded in the capacity.
SER("size_map_head", "MAP", "cbor_serialized_size", top="cbor_serialized_size__top", size=True, must=8,
    extra_defs=["VERIF_MAP_HEAD_ONLY", "VERIF_MAP_UNTYPED"], covers=2, props={"C07": FUNC + ["loop"], "C20": FUNC + ["loop"]})
SER("map_head", "MAP", "cbor_serialize_map", must=6, covers=2, extra_defs=["VERIF_MAP_HEAD_ONLY", "VERIF_MAP_UNTYPED"],
    props={"C07": FUNC, "C03": FUNC}, tier="experimental")

# cbor_decref on a map: the loop contract over the pair storage (pointer-typed loop variable `handle++`, two child
# releases per iteration) ran out of memory on every back end tried (MiniSat, CaDiCaL, cvc5; 24 GB).  Bounded
# stand-in: the map loop is unwound for maps of at most 3 pairs; the other loops keep their contracts.
P(tier="experimental", name="decref_map_bounded", kind="bounded", bound="maps with at most 3 stored pairs (capacity and everything else symbolic)",
  props={"C04": FUNC + FRAME + ["loop"], "C13": [], "C01": SAFETY, "C06": [], "C17": FRAME},
  lib=ITEMLIB, stubs=ITEM_STUBS + ["stubs/decref_ghost.c"], contracts=DECREF_CONTRACTS, harness="harness/decref.c",
  defines=["KIND_MAP", "VERIF_FIXED_NODES", "MAP_BOUND=3", "VERIF_MAP_CAP=4"], enforce="cbor_decref", twins={"cbor_decref": "cbor_decref__child"},
  replace=["cbor_decref__child"], loops="loops/decref_nomap.json", loop_fingerprint={"cbor_decref": 4},
  unwindset="cbor_decref_wrapped_for_contract_checking.3:5",
  must_exist=[r"cbor_decref\.postcondition\.4"], min_covers=2, cost=120, timeout=900, object_bits=10)

# ------------------------------------------------------------------------------------------------
# cbor_copy (C11, C06): step per node kind
COPYLIB = ITEMLIB + ["cbor.c", "cbor/streaming.c", "cbor/internal/loaders.c", "cbor/internal/builder_callbacks.c", "cbor/internal/stack.c",
                     "cbor/serialization.c", "cbor/encoding.c", "cbor/internal/encoders.c"]
COPY_STUBS = ITEM_STUBS + ["stubs/decref_ghost.c", "stubs/copy_ghost.c", "stubs/ldexp_model.c"]
COPY_CONTRACTS = CONT_CONTRACTS + ["contracts/copy.h"]
COPY_PROPS = {"C11": FUNC + FRAME + ["loop"], "C06": FUNC + FRAME + SAFETY, "C13": [], "C01": SAFETY, "C04": [], "C17": FRAME}


def COPY(kind, extra_defs=(), replace=(), loops=None, covers=2, **kw):
    kw.setdefault("replay", "copy_oracle")
    kw.setdefault("loop_fingerprint", {"cbor_copy": 4})   # a new loop in cbor_copy -> degraded bounded mode, not a timeout
    P(name="copy_" + kind.lower() + kw.pop("suffix", ""), props=dict(COPY_PROPS), lib=COPYLIB, stubs=COPY_STUBS, contracts=COPY_CONTRACTS,
      harness="harness/copy.c", defines=["COPY_KIND_" + kind, "CBOR_PRETTY_PRINTER_OFF"] + list(extra_defs), enforce=None,
      also_verified=["cbor_copy", "_cbor_copy_int", "_cbor_copy_float_ctrl"], twins={"cbor_copy": "cbor_copy__child"},
      replace=["cbor_copy__child"] + list(replace), loops=loops, min_covers=covers, cost=60, timeout=900, object_bits=10,
      must_exist=[r"cbor_copy__child\.precondition\.\d+"] if kind in ("TAG", "ARRAY", "MAP") else [], **kw)


for w in ("0", "1", "2", "3"):
    COPY("INT", extra_defs=["VERIF_INT_WIDTH=" + w, "VERIF_INT_TYPE=CBOR_TYPE_UINT"], suffix="_uint_w" + w, replay="copy_negint",
         replace=["cbor_build_uint8", "cbor_build_uint16", "cbor_build_uint32", "cbor_build_uint64"])
    COPY("INT", extra_defs=["VERIF_INT_WIDTH=" + w, "VERIF_INT_TYPE=CBOR_TYPE_NEGINT"], suffix="_negint_w" + w, replay="copy_negint",
         replace=["cbor_build_uint8", "cbor_build_uint16", "cbor_build_uint32", "cbor_build_uint64"])
    COPY("FLOAT_CTRL", extra_defs=["VERIF_FLOAT_WIDTH=" + w], suffix="_w" + w,
         replace=["cbor_build_ctrl", "cbor_build_float2", "cbor_build_float4", "cbor_build_float8"])
COPY("DEF_BYTESTRING", replace=["cbor_build_bytestring"])
COPY("DEF_STRING", replace=["cbor_build_stringn"])
# (goto-instrument runs out of memory, 16 GB, applying this loop contract inside cbor_copy: parked; see copy_array_* regions)
COPY("ARRAY", tier="experimental", extra_defs=["COPY_ARRAY_DEFINITE"], suffix="_definite", loops="loops/copy.json", loop_fingerprint={"cbor_copy": 4},
     replace=["cbor_array_get/cbor_array_get__hered", "cbor_move/cbor_move__hered", "cbor_new_definite_array/cbor_new_definite_array__copy", "cbor_new_indefinite_array",
              "cbor_array_push", "cbor_decref/cbor_decref__owned"], mem_gb=20)
COPY("TAG", replace=["cbor_tag_item/cbor_tag_item__hered", "cbor_move/cbor_move__hered", "cbor_build_tag", "cbor_decref/cbor_decref__owned"])

# cbor_copy composite cases: goto-instrument runs out of memory applying a loop contract inside cbor_copy, so each loop is
# verified as verbatim regions (pre / cond / body / post) extracted on every run (vlib/extract.py: cbor_copy_parts); lemma style
COPYP_CONTRACTS = COPY_CONTRACTS + ["contracts/copy_parts.h"]
COPYP_PROPS = {"C11": [], "C06": SAFETY, "C04": [], "C12": [], "C01": SAFETY, "C13": []}


def COPYP(name, define, replace=(), covers=2, **kw):
    P(name="copy_" + name, props=dict(COPYP_PROPS), lib=COPYLIB, stubs=COPY_STUBS, contracts=COPYP_CONTRACTS,
      harness="harness/copy_parts.c", defines=[define, "CBOR_PRETTY_PRINTER_OFF"], extract="cbor_copy_parts", enforce=None,
      also_verified=["cbor_copy"], replace=list(replace), min_covers=covers, cost=60, timeout=900, object_bits=10, replay="copy_oracle",
      assumed=["cbor_copy__child: induction hypothesis (A1)", "cbor_decref__counted: hereditary release (A1)"], **kw)


COPYP("array_pre", "H_COPY_ARRAY_PRE", ["cbor_new_definite_array", "cbor_new_indefinite_array"])
COPYP("array_cond", "H_COPY_ARRAY_COND")
COPYP("array_body", "H_COPY_ARRAY_BODY", ["cbor_copy/cbor_copy__child", "cbor_array_get/cbor_array_get__hered", "cbor_move/cbor_move__hered",
                                          "cbor_decref/cbor_decref__counted", "_cbor_safe_to_multiply"], covers=4, mem_gb=20)
COPYP("array_post", "H_COPY_ARRAY_POST", covers=1)
COPY_BODY_REPL = ["cbor_copy/cbor_copy__child", "cbor_decref/cbor_decref__counted", "_cbor_safe_to_multiply"]
for _t, _defs in (("bytestring", []), ("string", ["COPY_STR_IS_TEXT"])):
    for _r, _rep, _cov in (("pre", ["cbor_new_indefinite_" + _t], 2), ("cond", [], 2), ("body", COPY_BODY_REPL, 3), ("post", [], 1)):
        P(name="copy_%s_%s" % (_t, _r), props=dict(COPYP_PROPS), lib=COPYLIB, stubs=COPY_STUBS, contracts=COPYP_CONTRACTS,
          harness="harness/copy_parts.c", defines=["H_COPY_STR_" + _r.upper(), "CBOR_PRETTY_PRINTER_OFF"] + _defs,
          extract="cbor_copy_parts", enforce=None, also_verified=["cbor_copy"], replace=list(_rep), min_covers=_cov, cost=60,
          timeout=900, object_bits=10, mem_gb=20 if _r == "body" else 10, replay="copy_oracle",
          assumed=["cbor_copy__child: induction hypothesis (A1)", "cbor_decref__counted: hereditary release (A1)"])
COPYP("map_pre", "H_COPY_MAP_PRE", ["cbor_new_definite_map", "cbor_new_indefinite_map"])
COPYP("map_cond", "H_COPY_MAP_COND")
COPYP("map_body", "H_COPY_MAP_BODY", COPY_BODY_REPL + ["cbor_map_add/cbor_map_add__copy"], covers=4, mem_gb=20)
COPYP("map_post", "H_COPY_MAP_POST", covers=1)

# ------------------------------------------------------------------------------------------------
# cbor_load (C05 first: empty input)
LOADLIB = COPYLIB
LOAD_CONTRACTS = CONT_CONTRACTS + ["contracts/stack.h", "contracts/load.h"]
P(name="load_empty_input", props={"C05": FUNC + FRAME, "C01": SAFETY, "C13": []}, lib=LOADLIB, stubs=COPY_STUBS,
  contracts=LOAD_CONTRACTS, harness="harness/load.c", defines=["H_LOAD_EMPTY"], enforce="cbor_load", unwind=1,
  replay="load", must_exist=[r"cbor_load\.postcondition\.3"], min_covers=1, cost=10, object_bits=10)

# cbor_load's loops: goto-instrument cannot take a loop contract on cbor_load (memory), so the loop body, the exit, the
# error entry, the clean-up loop body and the error exit are verified as VERBATIM regions wrapped mechanically into
# functions on every run (vlib/extract.py; what that drops: the two loop constructs = meta-argument A2, and the
# prologue = proofs load_empty_input / load_first_head on the real function).
LOADP_CONTRACTS = LOAD_CONTRACTS + ["contracts/load_parts.h"]
LOADP_PROPS = {"C05": FUNC + FRAME, "C01": SAFETY, "C02": FUNC, "C14": FUNC, "C19": FUNC, "C06": FUNC + FRAME, "C04": FUNC + FRAME, "C13": []}
KPP = ("K'' = contract cbor_stream_decode__iter (contracts/load_parts.h): the C08 contract composed with the builder "
       "callback transitions, as seen by cbor_load; each half is proved (stream_decode_contract, cb_*, append_*), "
       "their composition and the content of cbor_load's static callback table are assumed")
for _n, _def, _enf, _rep, _must, _cov in (
        ("load_prologue", "H_LOAD_PROLOGUE", "cbor_load__prologue", ["_cbor_stack_init"], 3, 2),
        ("load_iteration", "H_LOAD_ITER", "cbor_load__iteration", ["cbor_stream_decode/cbor_stream_decode__iter"], 11, 8),
        ("load_exit", "H_LOAD_EXIT", "cbor_load__exit", [], 1, 1),
        ("load_error_entry", "H_LOAD_ERR_ENTRY", "cbor_load__error_entry", [], 1, 1),
        ("load_cleanup_iteration", "H_LOAD_CLEANUP", "cbor_load__cleanup_iteration",
         ["cbor_decref/cbor_decref__cleanup", "_cbor_stack_pop"], 3, 2),   # CaDiCaL: 40 s, MiniSat: 200 s
        ("load_error_exit", "H_LOAD_ERR_EXIT", "cbor_load__error_exit", [], 1, 1)):
    P(name=_n, props=dict(LOADP_PROPS), lib=LOADLIB, stubs=COPY_STUBS + ["stubs/builder_ghost.c"], contracts=LOADP_CONTRACTS,
      harness="harness/load_parts.c", defines=[_def], extract="cbor_load_parts", enforce=_enf, replace=_rep, replay="load_oracle",
      assumed=[KPP] if _rep and "iter" in _rep[0] else [],
      must_exist=[r"%s\.postcondition\.%d" % (_enf, _must)], min_covers=_cov, cost=20, object_bits=10)

# ------------------------------------------------------------------------------------------------
# Which proofs a property's check runs.  A proof can discharge obligations relevant to many properties, but
# running every proof for the broad properties (C01, C13, C17) would make their quick tier hours long; each of
# them runs the proofs on the decode / release / serialization paths its statement names and leaves the
# remaining obligations to the property whose check runs that proof anyway.
_TRIM = {
    "C01": ("ro_", "enc_", "encdec_", "op_"),
    "C13": ("ro_", "encdec_", "copy_", "ser_uint", "ser_negint", "ser_float", "ser_def", "ser_indef", "ser_tag", "ser_map",
            "ser_size_int", "ser_size_float", "ser_size_def", "ser_size_indef", "ser_size_tag", "ser_size_map", "ser_encoded"),
    "C17": ("ro_", "op_", "cont_", "copy_", "enc_", "ser_uint", "ser_negint", "ser_float", "ser_def", "ser_indef", "ser_tag",
            "ser_map", "ser_array", "stack_"),
}
# the three map lemma proofs are by far the most expensive ones (6-13 min, 11-15 GB): they run only for the properties
# whose statement they carry (their safety / allocator-discipline obligations are not needed to decide C01 / C13 / C17 ...:
# the same code shapes are covered for those by the array and chunk-table proofs)
_HEAVY_ONLY = {"decref_map_lemma": {"C04"}, "ser_map_lemma": {"C03", "C07"}, "append_map": {"C02", "C14", "C04", "C06", "C12"}}
for _p in PROOFS:
    for _pid, _prefixes in _TRIM.items():
        if _pid in _p["props"] and _p["name"].startswith(_prefixes):
            del _p["props"][_pid]

# definite array / map constructors (slot initialisation loop)
# goto-instrument 6.11 aborts ("get_loop_head_or_end: Unreachable") on ANY loop contract for cbor_new_definite_array
# (two do{}while(0) macros precede the slot-initialisation loop): bounded stand-in, the loop is unwound for size <= 6
P(name="cont_new_definite_array_bounded", kind="bounded", bound="preallocated size <= 6 (slot initialisation loop unwound)",
  props=dict(CONT_PROPS), lib=ITEMLIB, stubs=ITEM_STUBS + ["stubs/decref_ghost.c"], contracts=CONT_CONTRACTS, harness="harness/ops.c",
  defines=["H_CTOR", "CALL=cbor_new_definite_array((size_t)nd)", "CTOR_ARG_BOUND=6"], enforce="cbor_new_definite_array",
  replace=["_cbor_alloc_multiple"], unwind=8, must_exist=[r"cbor_new_definite_array\.postcondition\.4"], min_covers=2, cost=30)
CONT("cbor_new_definite_map", ["H_CTOR", "CALL=cbor_new_definite_map((size_t)nd)"], replace=["_cbor_alloc_multiple"], must=4, covers=2, cost=30)

# ------------------------------------------------------------------------------------------------
# L3 decode: _cbor_builder_append, one proof per kind of open item (push-down automaton transitions)
BUILDLIB = COPYLIB
BUILD_STUBS = COPY_STUBS + ["stubs/builder_ghost.c"]
BUILD_CONTRACTS = CONT_CONTRACTS + ["contracts/stack.h", "contracts/builder.h"]
BUILD_PROPS = {"C02": FUNC + FRAME, "C05": [], "C04": [], "C06": SAFETY, "C01": SAFETY, "C19": [], "C13": [], "C17": FRAME, "C14": FUNC}
# C14 (an item decodes the same whatever follows) depends on every push-down transition placing the item boundary exactly:
# in the decode-layer proofs the obligations tagged C02 also count for C14
DECODE_ALIAS = {"C14": ["C02"]}
for top in ("EMPTY", "DEF_ARRAY", "INDEF_ARRAY", "MAP", "TAG", "BYTESTRING", "STRING"):
    bounded = False
    P(name="append_" + top.lower() + ("_bounded" if bounded else ""), props=dict(BUILD_PROPS, **({"C12": []} if top == "MAP" else {})),
      lib=BUILDLIB, stubs=BUILD_STUBS,
      contracts=BUILD_CONTRACTS, harness="harness/builder.c",
      defines=["H_APPEND", "TOP_" + top] + (["VERIF_MAP_CAP=4"] if bounded else []),
      # array / map cases: the transition facts are asserted by the harness on the real function, but its frame contract is
      # not enforced in these cases (with the conditional frame over the slot storage the query ran out of memory, 28 GB)
      enforce=None if top in ("DEF_ARRAY", "INDEF_ARRAY", "MAP") else "_cbor_builder_append",
      also_verified=["_cbor_builder_append"], twins={"_cbor_builder_append": "_cbor_builder_append__child"},
      # cbor_array_push is verified inlined here (with _cbor_safe_to_multiply by contract): replacing it by its contract
      # (conditional frames over the slot storage) made the two array cases run out of memory
      replace=["_cbor_builder_append__child", "_cbor_safe_to_multiply", "cbor_tag_set_item",
               "cbor_decref/cbor_decref__owned", "_cbor_stack_pop"],
      must_exist=[r"_cbor_builder_append\.postcondition\.5"] if top not in ("DEF_ARRAY", "INDEF_ARRAY", "MAP") else [r"_cbor_stack_pop\.precondition\.\d+"],
      min_covers=1, cost=120, timeout=1500 if top == "MAP" else 900, object_bits=10, mem_gb=20, replay="load_oracle", tag_alias=DECODE_ALIAS,
      expect_gb=12 if top == "MAP" else 2,
      **(dict(kind="bounded", bound=MAP_BOUND) if bounded else {}))

# builder callbacks: one push-down-automaton transition per head kind; any stack depth, any kind of open item
CB_REPLACE = ["_cbor_builder_append/_cbor_builder_append__handover", "_cbor_stack_push/_cbor_stack_push__cb", "cbor_decref/cbor_decref__childless",
              "cbor_new_int8", "cbor_new_int16", "cbor_new_int32", "cbor_new_int64", "cbor_mark_uint", "cbor_mark_negint",
              "cbor_set_uint8", "cbor_set_uint16", "cbor_set_uint32", "cbor_set_uint64",
              "cbor_new_float2", "cbor_new_float4", "cbor_new_float8", "cbor_set_float2", "cbor_set_float4", "cbor_set_float8",
              "cbor_new_null", "cbor_new_undef", "cbor_build_bool",
              "cbor_new_indefinite_array", "cbor_new_indefinite_map", "cbor_new_indefinite_bytestring", "cbor_new_indefinite_string",
              "cbor_new_tag", "cbor_new_definite_array", "cbor_new_definite_map"]
CB_PROPS = {"C02": ["precondition"], "C05": [], "C06": SAFETY, "C19": [], "C01": SAFETY, "C04": [], "C13": [], "C15": ["precondition"],
            "C14": ["precondition"]}


def CB(name, call, kind, defs, covers=2, **kw):
    P(name="cb_" + name, props=dict(CB_PROPS), lib=BUILDLIB, stubs=BUILD_STUBS, contracts=BUILD_CONTRACTS, harness="harness/builder.c",
      defines=["H_CALLBACK", "TOP_SIMPLE", "CALL=" + call, kind] + (defs if any(d.startswith("CB_MAY_FAIL_ON_LENGTH") for d in defs) else defs + ["CB_MAY_FAIL_ON_LENGTH=0"]),
      enforce=None, also_verified=["cbor_builder_" + name + "_callback"], replace=CB_REPLACE,
      must_exist=[r"_cbor_builder_append.*\.precondition\.\d+" if kind == "CB_LEAF" else r"_cbor_stack_push.*\.precondition\.\d+"],
      min_covers=covers, cost=60, timeout=900, object_bits=10, tag_alias=DECODE_ALIAS, **dict(dict(replay="load_oracle"), **kw))


for w, wc in (("8", 0), ("16", 1), ("32", 2), ("64", 3)):
    CB("uint" + w, "cbor_builder_uint%s_callback(ctx,(uint%s_t)nd)" % (w, w), "CB_LEAF",
       ["CB_EXP_TYPE=CBOR_TYPE_UINT", "CB_EXP_WIDTH=%d" % wc, "CB_EXP_BITS=(uint64_t)(uint%s_t)nd" % w])
    CB("negint" + w, "cbor_builder_negint%s_callback(ctx,(uint%s_t)nd)" % (w, w), "CB_LEAF",
       ["CB_EXP_TYPE=CBOR_TYPE_NEGINT", "CB_EXP_WIDTH=%d" % wc, "CB_EXP_BITS=(uint64_t)(uint%s_t)nd" % w])
CB("float2", "cbor_builder_float2_callback(ctx,ndf)", "CB_LEAF",
   ["CB_EXP_TYPE=CBOR_TYPE_FLOAT_CTRL", "CB_EXP_WIDTH=1", "CB_EXP_BITS=(uint64_t)ARG_F32_BITS(ndf)"])
CB("float4", "cbor_builder_float4_callback(ctx,ndf)", "CB_LEAF",
   ["CB_EXP_TYPE=CBOR_TYPE_FLOAT_CTRL", "CB_EXP_WIDTH=2", "CB_EXP_BITS=(uint64_t)ARG_F32_BITS(ndf)"])
CB("float8", "cbor_builder_float8_callback(ctx,ndd)", "CB_LEAF",
   ["CB_EXP_TYPE=CBOR_TYPE_FLOAT_CTRL", "CB_EXP_WIDTH=3", "CB_EXP_BITS=ARG_F64_BITS(ndd)"])
CB("null", "cbor_builder_null_callback(ctx)", "CB_LEAF", ["CB_EXP_TYPE=CBOR_TYPE_FLOAT_CTRL", "CB_EXP_WIDTH=0", "CB_EXP_BITS=22"])
CB("undefined", "cbor_builder_undefined_callback(ctx)", "CB_LEAF", ["CB_EXP_TYPE=CBOR_TYPE_FLOAT_CTRL", "CB_EXP_WIDTH=0", "CB_EXP_BITS=23"])
CB("boolean", "cbor_builder_boolean_callback(ctx,ndb)", "CB_LEAF", ["CB_EXP_TYPE=CBOR_TYPE_FLOAT_CTRL", "CB_EXP_WIDTH=0", "CB_EXP_BITS=(ndb?21:20)"])
OPEN = "CB_OPENER"
CB("indef_array_start", "cbor_builder_indef_array_start_callback(ctx)", OPEN,
   ["CB_COMPLETE_IF_EMPTY=0", "CB_SUBITEMS=0", "CB_PUSH_TYPE=CBOR_TYPE_ARRAY", "CB_PUSH_FLAVOUR=_CBOR_METADATA_INDEFINITE", "CB_PUSH_ARG=0"], covers=3)
CB("indef_map_start", "cbor_builder_indef_map_start_callback(ctx)", OPEN,
   ["CB_COMPLETE_IF_EMPTY=0", "CB_SUBITEMS=0", "CB_PUSH_TYPE=CBOR_TYPE_MAP", "CB_PUSH_FLAVOUR=_CBOR_METADATA_INDEFINITE", "CB_PUSH_ARG=0"], covers=3)
CB("byte_string_start", "cbor_builder_byte_string_start_callback(ctx)", OPEN,
   ["CB_COMPLETE_IF_EMPTY=0", "CB_SUBITEMS=0", "CB_PUSH_TYPE=CBOR_TYPE_BYTESTRING", "CB_PUSH_FLAVOUR=_CBOR_METADATA_INDEFINITE", "CB_PUSH_ARG=0"], covers=3)
CB("string_start", "cbor_builder_string_start_callback(ctx)", OPEN,
   ["CB_COMPLETE_IF_EMPTY=0", "CB_SUBITEMS=0", "CB_PUSH_TYPE=CBOR_TYPE_STRING", "CB_PUSH_FLAVOUR=_CBOR_METADATA_INDEFINITE", "CB_PUSH_ARG=0"], covers=3)
CB("tag", "cbor_builder_tag_callback(ctx,nd)", OPEN,
   ["CB_COMPLETE_IF_EMPTY=0", "CB_SUBITEMS=1", "CB_PUSH_TYPE=CBOR_TYPE_TAG", "CB_PUSH_FLAVOUR=0", "CB_PUSH_ARG=nd"], covers=3)
CB("array_start", "cbor_builder_array_start_callback(ctx,nd)", OPEN,
   ["CB_MAY_FAIL_ON_LENGTH=(nd>=((uint64_t)1<<60))", "CB_COMPLETE_IF_EMPTY=(nd==0)", "CB_SUBITEMS=nd", "CB_EXP_TYPE=CBOR_TYPE_ARRAY", "CB_EXP_WIDTH=0", "CB_EXP_BITS=0",
    "CB_PUSH_TYPE=CBOR_TYPE_ARRAY", "CB_PUSH_FLAVOUR=_CBOR_METADATA_DEFINITE", "CB_PUSH_ARG=nd"], covers=3)
CB("map_start", "cbor_builder_map_start_callback(ctx,nd)", OPEN,
   ["CB_MAY_FAIL_ON_LENGTH=(nd>=((uint64_t)1<<59))", "CB_COMPLETE_IF_EMPTY=(nd==0)", "CB_SUBITEMS=2*nd", "CB_EXP_TYPE=CBOR_TYPE_MAP", "CB_EXP_WIDTH=0", "CB_EXP_BITS=0",
    "CB_PUSH_TYPE=CBOR_TYPE_MAP", "CB_PUSH_FLAVOUR=_CBOR_METADATA_DEFINITE", "CB_PUSH_ARG=nd"], covers=3)

# the dispatcher cbor_serialize (per node kind: the per-type serializers are represented by their contracts) and
# cbor_serialize_alloc for the kinds whose size/serialize agreement is exact at contract level (leaves, definite strings)
SER_PER_TYPE = ["cbor_serialize_uint", "cbor_serialize_negint", "cbor_serialize_float_ctrl", "cbor_serialize_bytestring",
                "cbor_serialize_string", "cbor_serialize_array", "cbor_serialize_map", "cbor_serialize_tag"]
for kind, extra in (("INT", ["VERIF_INT_TYPE=CBOR_TYPE_UINT"]), ("FLOAT_CTRL", []), ("DEF_BYTESTRING", []), ("DEF_STRING", []),
                    ("ARRAY", []), ("TAG", []), ("INDEF_STRING", [])):
    P(name="ser_dispatch_" + kind.lower(), props={"C07": FUNC + FRAME, "C03": FUNC, "C18": FRAME, "C01": SAFETY}, lib=SERLIB, stubs=SER_STUBS,
      contracts=SER_CONTRACTS, harness="harness/serialize.c", defines=["SER_KIND_" + kind, "SER_FN=cbor_serialize__top"] + extra,
      enforce="cbor_serialize", twins={"cbor_serialize": "cbor_serialize__child"}, replace=SER_PER_TYPE,
      must_exist=[r"cbor_serialize\.postcondition\.5"], min_covers=2, cost=60, timeout=900, object_bits=10)
for kind, extra in (("INT", ["VERIF_INT_TYPE=CBOR_TYPE_NEGINT"]), ("FLOAT_CTRL", []), ("DEF_BYTESTRING", []), ("DEF_STRING", [])):
    P(name="ser_alloc_" + kind.lower(), props={"C06": FUNC + FRAME + SAFETY, "C07": FUNC + FRAME + ["cbor_assert"], "C13": FUNC, "C01": SAFETY},
      lib=SERLIB, stubs=SER_STUBS, contracts=SER_CONTRACTS, harness="harness/serialize.c",
      defines=["SER_KIND_" + kind, "SER_ALLOC", "SER_FN=unused"] + extra, enforce="cbor_serialize_alloc",
      replace=["cbor_serialized_size", "cbor_serialize"], must_exist=[r"cbor_serialize_alloc\.postcondition\.3"], min_covers=3,
      cost=60, timeout=900, object_bits=10)

# cbor_serialize_alloc for an item of ANY kind (composites included), lemma style over the hereditary twin contracts
P(name="ser_alloc_any", props={"C06": SAFETY, "C07": ["cbor_assert"], "C13": [], "C01": SAFETY}, lib=SERLIB, stubs=SER_STUBS,
  contracts=SER_CONTRACTS, harness="harness/serialize.c", defines=["SER_KIND_ANY", "SER_ALLOC_ANY", "SER_FN=unused"], enforce=None,
  also_verified=["cbor_serialize_alloc"],
  replace=["cbor_serialized_size/cbor_serialized_size__child", "cbor_serialize/cbor_serialize__child"], min_covers=4, cost=30,
  timeout=900, object_bits=10,
  assumed=["cbor_serialized_size__child / cbor_serialize__child: size == USIZE(item), serialization == USIZE(item) when it fits "
           "(established per node kind by the ser_size_* / ser_* proofs; A1)"])

# definite string heads: chunk of an open chunked string of the same major type, or a complete item
STRCB_REPLACE = ["_cbor_builder_append/_cbor_builder_append__handover", "cbor_new_definite_bytestring", "cbor_new_definite_string",
                 "cbor_bytestring_add_chunk/cbor_bytestring_add_chunk__cb", "cbor_string_add_chunk/cbor_string_add_chunk__cb",
                 "cbor_decref/cbor_decref__chunk", "_cbor_unicode_codepoint_count/_cbor_unicode_codepoint_count__plain"]
for cbname, isbytes, typ in (("byte_string", True, "CBOR_TYPE_BYTESTRING"), ("string", False, "CBOR_TYPE_STRING")):
    for top in ("SIMPLE", "BYTESTRING", "STRING"):
        P(name="cb_%s_top_%s" % (cbname, top.lower()), props=dict(CB_PROPS, C16=[]), lib=BUILDLIB, stubs=BUILD_STUBS,
          contracts=BUILD_CONTRACTS, harness="harness/builder.c",
          defines=["H_STRING_CALLBACK", "TOP_" + top, "STR_CALLBACK=cbor_builder_%s_callback" % cbname, "STR_TYPE=" + typ] +
                  (["STR_IS_BYTES"] if isbytes else []),
          enforce=None, also_verified=["cbor_builder_%s_callback" % cbname], replace=STRCB_REPLACE,
          must_exist=[r"cbor_new_definite_\w+\.precondition\.\d+"], min_covers=2, cost=90, timeout=900, object_bits=10,
          tag_alias=DECODE_ALIAS, replay="load_oracle")

# the break head
for top, cov in (("EMPTY", 1), ("DEF_ARRAY", 1), ("INDEF_ARRAY", 1), ("MAP", 2), ("TAG", 1), ("BYTESTRING", 1), ("STRING", 1)):
    P(name="cb_break_top_" + top.lower(), props=dict(CB_PROPS), lib=BUILDLIB, stubs=BUILD_STUBS, contracts=BUILD_CONTRACTS,
      harness="harness/builder.c", defines=["H_BREAK", "TOP_" + top] + (["VERIF_MAP_CAP=4"] if top == "MAP" else []),
      enforce=None, also_verified=["cbor_builder_indef_break_callback", "_cbor_is_indefinite"],
      replace=["_cbor_builder_append/_cbor_builder_append__handover", "_cbor_stack_pop"],
      min_covers=cov, cost=60, timeout=900, object_bits=10, tag_alias=DECODE_ALIAS, replay="load_oracle")

# map add key / add pair: specification asserted by the harness on the real functions (see harness/ops.c MAP_LEMMA)
for nm, d, fn in (("cont_map_add_key_lemma", "H_MAP_ADD_KEY", "_cbor_map_add_key"), ("cont_map_add_lemma", "H_MAP_ADD", "cbor_map_add")):
    P(name=nm, tier="thorough", props={"C12": SAFETY, "C04": [], "C06": SAFETY, "C20": [], "C13": [], "C01": SAFETY}, lib=ITEMLIB,
      stubs=ITEM_STUBS + ["stubs/decref_ghost.c"], contracts=CONT_CONTRACTS, harness="harness/ops.c", defines=[d, "MAP_LEMMA"],
      enforce=None, also_verified=[fn, "_cbor_map_add_value"], replace=["_cbor_safe_to_multiply"], min_covers=7, cost=200, timeout=1800, mem_gb=24,
      expect_gb=24)

# cbor_load: goto-instrument 6.11 runs out of memory on ANY loop contract for cbor_load (do-while with gotos to a label
# behind the loop), so both loops are unwound: BOUNDED stand-in - runs of at most 3 heads, failing at depth <= 3.  Because
# K' hands back an arbitrary state satisfying its postcondition, iterations 2 and 3 start from arbitrary invariant states.
# The streaming decoder with the builder table is the ASSUMED contract K' (contracts/load.h).
# base case of the loop rule on the REAL function: prologue + the first two heads + exit / clean-up (bounded)
# (does not finish in 15 min on MiniSat: parked; the prologue is covered without bound by load_prologue on the extracted text)
P(tier="experimental", name="load_first_heads", kind="bounded", bound="main loop of cbor_load unwound twice (first two heads of every input); stack depth <= 2 when a run fails",
  props={"C05": FUNC + FRAME, "C14": FUNC, "C01": SAFETY, "C02": FUNC, "C19": [], "C04": []},
  lib=LOADLIB, stubs=BUILD_STUBS, contracts=BUILD_CONTRACTS + ["contracts/load.h"], harness="harness/load.c",
  defines=["H_LOAD_LOOP", "VERIF_LOAD_DEPTH_BOUND=2"], enforce="cbor_load",
  replace=["cbor_stream_decode/cbor_stream_decode__load", "cbor_decref/cbor_decref__owned", "_cbor_stack_pop/_cbor_stack_pop__hered", "_cbor_stack_init"],
  cbmc_flags=[f for f in __import__("vlib.driver", fromlist=["STD_CHECKS"]).STD_CHECKS if f != "--unwinding-assertions"] + ["--no-unwinding-assertions"],
  unwindset="cbor_load_wrapped_for_contract_checking.0:2,cbor_load_wrapped_for_contract_checking.1:3",
  must_exist=[r"cbor_load\.postcondition\.4"], min_covers=6, cost=120, timeout=900, object_bits=10,
  assumed=["K' = contract cbor_stream_decode__load (contracts/load.h): composition of the C08 contract with the builder callback "
           "transitions, and A9 (cbor_load's static table holds the builder callbacks); not machine-checked"])
P(tier="experimental", name="load_loops_bounded", kind="bounded", bound="at most 3 item heads per run; stack depth <= 3 when a run fails",
  props={"C05": FUNC + FRAME, "C14": FUNC, "C01": SAFETY, "C02": FUNC, "C19": [], "C04": []},
  lib=LOADLIB, stubs=BUILD_STUBS, contracts=BUILD_CONTRACTS + ["contracts/load.h"], harness="harness/load.c",
  defines=["H_LOAD_LOOP", "VERIF_LOAD_DEPTH_BOUND=3"], enforce="cbor_load",
  replace=["cbor_stream_decode/cbor_stream_decode__load", "cbor_decref/cbor_decref__owned", "_cbor_stack_pop/_cbor_stack_pop__hered", "_cbor_stack_init"],
  cbmc_flags=[f for f in __import__("vlib.driver", fromlist=["STD_CHECKS"]).STD_CHECKS if f != "--unwinding-assertions"] + ["--no-unwinding-assertions"],
  unwindset="cbor_load_wrapped_for_contract_checking.0:4,cbor_load_wrapped_for_contract_checking.1:4",
  must_exist=[r"cbor_load\.postcondition\.4"], min_covers=7, cost=120, timeout=900, object_bits=10,
  assumed=["K' = contract cbor_stream_decode__load (contracts/load.h): composition of the C08 contract with the builder callback "
           "transitions, and A9 (cbor_load's static table holds the builder callbacks); not machine-checked"])

# cbor_serialize_map, lemma style (the loop is still closed by its loop contract; children through the twin)
P(name="ser_map_lemma", props={"C03": ["loop"], "C07": ["loop"], "C18": [], "C01": SAFETY}, lib=SERLIB, stubs=SER_STUBS,
  contracts=SER_CONTRACTS, harness="harness/serialize.c",
  defines=["SER_KIND_MAP", "SER_FN=cbor_serialize_map", "VERIF_FIXED_NODES", "SER_LEMMA"], enforce=None,
  also_verified=["cbor_serialize_map"], twins=SER_TWINS, replace=list(SER_TWINS.values()) + ENC_ALL,
  loops="loops/serialization.json", loop_fingerprint={"cbor_serialize_map": 1},
  must_exist=[r"cbor_serialize_map\.loop_invariant_step\.\d+"], min_covers=4, cost=200, timeout=1800, object_bits=10, mem_gb=20)

# cbor_decref on a map, lemma style: loop contract over the pair storage + harness assertions, frame not enforced
P(name="decref_map_lemma", props={"C04": ["loop"], "C13": [], "C01": SAFETY + ["loop"], "C06": []},
  lib=ITEMLIB, stubs=ITEM_STUBS + ["stubs/decref_ghost.c"], contracts=DECREF_CONTRACTS, harness="harness/decref.c",
  defines=["KIND_MAP", "VERIF_FIXED_NODES"], enforce=None, also_verified=["cbor_decref"], twins={"cbor_decref": "cbor_decref__child"},
  replace=["cbor_decref__child"], loops="loops/decref.json", loop_fingerprint={"cbor_decref": 4},
  must_exist=[r"cbor_decref\.loop_invariant_step\.\d+"], min_covers=2, cost=200, timeout=2400, object_bits=10, mem_gb=24, expect_gb=16)

# (attempted quick stand-in for the proof above, maps of at most 2 pairs: out of memory at 12 GB within 2 min - the cost is
# not the capacity; parked.  The unbounded proof itself runs in the quick tier, for C04 only: 13 min / 15 GB)
P(tier="experimental", name="decref_map_lemma_bounded", kind="bounded", bound="maps with at most 2 pairs (capacity <= 2)", props={"C04": ["loop"], "C01": SAFETY + ["loop"]},
  lib=ITEMLIB, stubs=ITEM_STUBS + ["stubs/decref_ghost.c"], contracts=DECREF_CONTRACTS, harness="harness/decref.c",
  defines=["KIND_MAP", "VERIF_FIXED_NODES", "MAP_BOUND=2", "VERIF_MAP_CAP=2"], enforce=None, also_verified=["cbor_decref"],
  twins={"cbor_decref": "cbor_decref__child"}, replace=["cbor_decref__child"], loops="loops/decref.json", loop_fingerprint={"cbor_decref": 4},
  must_exist=[r"cbor_decref\.loop_invariant_step\.\d+"], min_covers=2, cost=100, timeout=900, object_bits=10, mem_gb=12)

# final pass (all proofs registered): restrict the heavy map lemma proofs to their own properties
for _p in PROOFS:
    if _p["name"] in _HEAVY_ONLY:
        for _pid in list(_p["props"]):
            if _pid not in _HEAVY_ONLY[_p["name"]]:
                del _p["props"][_pid]

# ------------------------------------------------------------------------------------------------
# Dependency closure.  A proof that uses the contract of f at a call site (replace mode) decides a property only if that
# contract is true of the real f.  So for every property P, every proof that ENFORCES a contract used by one of P's proofs
# also runs in P's check, and its postconditions / loop obligations / frame count for P (for C01 its safety obligations as
# well).  Assumed variants (f/variant) and induction-hypothesis twins (f__child) are not contracts of real functions: they
# are listed in evidence under contracts_assumed_not_enforced instead.  (Found with the seed C10d: the encoder->decoder
# inverse lemmas of C10 use the decoder's contract, whose enforcing proof was attributed to C08/C09/C14 only.)
_DEP = ["postcondition", "loop", "assigns", "frees"]
_ALL_TAGS = ["C%02d" % i for i in range(1, 21)]


def _close_dependencies():
    live = [p for p in PROOFS if p.get("tier", "quick") != "experimental"]
    enforcers = {}
    for p in live:
        fs = set(p.get("also_verified", []))
        if p.get("enforce"):
            fs.add(p["enforce"])
        for f in fs:
            enforcers.setdefault(f, []).append(p)
    for pid in _ALL_TAGS:
        changed = True
        while changed:
            changed = False
            for p in live:
                if pid not in p["props"]:
                    continue
                for r in p.get("replace", []):
                    if "/" in r or r.endswith("__child"):
                        continue
                    for q in enforcers.get(r, []):
                        if pid in q["props"] or q["name"] in _HEAVY_ONLY:
                            continue
                        # a thorough-tier enforcer stays in the thorough tier
                        q["props"][pid] = _DEP + (["safety", "cbor_assert", "precondition", "dfcc_internal"] if pid == "C01" else [])
                        if not q.get("enforce"):
                            # lemma-style enforcer: its specification is in tagged harness assertions
                            q.setdefault("tag_alias", {})
                            q["tag_alias"] = dict(q["tag_alias"], **{pid: _ALL_TAGS})
                        q.setdefault("dependency_of", []).append(pid)
                        changed = True


_close_dependencies()
