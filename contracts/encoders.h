/* Contracts for src/cbor/internal/encoders.c and src/cbor/encoding.c (C07, C10, C03, C13, C15).
 * Each encoder: returns the head length and writes exactly the RFC 8949 head (spec/head.h) when the
 * buffer is large enough; otherwise returns 0 and - by the conditional frame - writes nothing.  The frame
 * is object_upto(buffer, need): a byte written past `need`, or any write on the failure path, fails an
 * `assigns` obligation even if it is undone later. */
#ifndef VERIF_C_ENCODERS_H
#define VERIF_C_ENCODERS_H
#include "contracts/ghost.h"
#include "spec/head.h"

/* bytes 0..need-1 of the buffer equal the spec head (need <= 9) */
#define ENC_BYTES_ARE(buf, major, ab, v)                                        \
  ((buf)[0] == spec_head_byte(major, ab, v, 0) &&                               \
   ((ab) < 1 || (buf)[1] == spec_head_byte(major, ab, v, 1)) &&                 \
   ((ab) < 2 || (buf)[2] == spec_head_byte(major, ab, v, 2)) &&                 \
   ((ab) < 4 || ((buf)[3] == spec_head_byte(major, ab, v, 3) &&                 \
                 (buf)[4] == spec_head_byte(major, ab, v, 4))) &&               \
   ((ab) < 8 || ((buf)[5] == spec_head_byte(major, ab, v, 5) &&                 \
                 (buf)[6] == spec_head_byte(major, ab, v, 6) &&                 \
                 (buf)[7] == spec_head_byte(major, ab, v, 7) &&                 \
                 (buf)[8] == spec_head_byte(major, ab, v, 8))))

/* fixed number of argument bytes AB (1,2,4,8) */
#define ENC_FIXED_CONTRACT(AB, major, v)                                                        \
  __CPROVER_requires(__CPROVER_w_ok(buffer, buffer_size))                                       \
  __CPROVER_assigns(buffer_size >= 1 + (AB) : __CPROVER_object_upto(buffer, 1 + (AB)))          \
  __CPROVER_ensures(__CPROVER_return_value == (buffer_size >= 1 + (AB) ? (size_t)(1 + (AB)) : (size_t)0)) \
  __CPROVER_ensures(buffer_size >= 1 + (AB) ==> ENC_BYTES_ARE(buffer, major, AB, v))

/* 8-bit variants: immediate up to 23, one argument byte above */
#define ENC_8_CONTRACT(major, v)                                                                \
  __CPROVER_requires(__CPROVER_w_ok(buffer, buffer_size))                                       \
  __CPROVER_assigns((v) <= 23 && buffer_size >= 1 : __CPROVER_object_upto(buffer, 1);           \
                    (v) > 23 && buffer_size >= 2 : __CPROVER_object_upto(buffer, 2))            \
  __CPROVER_ensures(__CPROVER_return_value ==                                                   \
                    ((v) <= 23 ? (buffer_size >= 1 ? (size_t)1 : (size_t)0)                     \
                               : (buffer_size >= 2 ? (size_t)2 : (size_t)0)))                   \
  __CPROVER_ensures(__CPROVER_return_value != 0 ==>                                             \
                    ENC_BYTES_ARE(buffer, major, ((v) <= 23 ? 0u : 1u), v))

/* width-agnostic variants: shortest head */
#define ENC_SHORTEST_CONTRACT(major, v)                                                         \
  __CPROVER_requires(__CPROVER_w_ok(buffer, buffer_size))                                       \
  __CPROVER_assigns((v) <= 23 && buffer_size >= 1 : __CPROVER_object_upto(buffer, 1);           \
                    (v) > 23 && (v) <= 0xff && buffer_size >= 2 : __CPROVER_object_upto(buffer, 2); \
                    (v) > 0xff && (v) <= 0xffff && buffer_size >= 3 : __CPROVER_object_upto(buffer, 3); \
                    (v) > 0xffff && (v) <= 0xffffffffu && buffer_size >= 5 : __CPROVER_object_upto(buffer, 5); \
                    (v) > 0xffffffffu && buffer_size >= 9 : __CPROVER_object_upto(buffer, 9))   \
  __CPROVER_ensures(__CPROVER_return_value ==                                                   \
                    (buffer_size >= 1 + spec_shortest_argbytes(v) ? (size_t)(1 + spec_shortest_argbytes(v)) : (size_t)0)) \
  __CPROVER_ensures(__CPROVER_return_value != 0 ==>                                             \
                    ENC_BYTES_ARE(buffer, major, spec_shortest_argbytes(v), v))

/* a single fixed byte */
#define ENC_BYTE_CONTRACT(byte)                                                                 \
  __CPROVER_requires(__CPROVER_w_ok(buffer, buffer_size))                                       \
  __CPROVER_assigns(buffer_size >= 1 : __CPROVER_object_upto(buffer, 1))                        \
  __CPROVER_ensures(__CPROVER_return_value == (buffer_size >= 1 ? (size_t)1 : (size_t)0))       \
  __CPROVER_ensures(buffer_size >= 1 ==> buffer[0] == (byte))

/* ---- internal encoders: `offset` is the major type already shifted (0x00, 0x20, ... 0xE0) ---- */
#define OFFSET_OK(offset) (((offset) & 0x1f) == 0)
size_t _cbor_encode_uint8(uint8_t value, unsigned char *buffer, size_t buffer_size, uint8_t offset)
__CPROVER_requires(OFFSET_OK(offset)) ENC_8_CONTRACT((unsigned)offset >> 5, value);
size_t _cbor_encode_uint16(uint16_t value, unsigned char *buffer, size_t buffer_size, uint8_t offset)
__CPROVER_requires(OFFSET_OK(offset)) ENC_FIXED_CONTRACT(2, (unsigned)offset >> 5, value);
size_t _cbor_encode_uint32(uint32_t value, unsigned char *buffer, size_t buffer_size, uint8_t offset)
__CPROVER_requires(OFFSET_OK(offset)) ENC_FIXED_CONTRACT(4, (unsigned)offset >> 5, value);
size_t _cbor_encode_uint64(uint64_t value, unsigned char *buffer, size_t buffer_size, uint8_t offset)
__CPROVER_requires(OFFSET_OK(offset)) ENC_FIXED_CONTRACT(8, (unsigned)offset >> 5, value);
size_t _cbor_encode_uint(uint64_t value, unsigned char *buffer, size_t buffer_size, uint8_t offset)
__CPROVER_requires(OFFSET_OK(offset)) ENC_SHORTEST_CONTRACT((unsigned)offset >> 5, value);
size_t _cbor_encode_byte(uint8_t value, unsigned char *buffer, size_t buffer_size)
ENC_BYTE_CONTRACT(value);

/* ---- public encoders ---- */
size_t cbor_encode_uint8(uint8_t value, unsigned char *buffer, size_t buffer_size) ENC_8_CONTRACT(0, value);
size_t cbor_encode_uint16(uint16_t value, unsigned char *buffer, size_t buffer_size) ENC_FIXED_CONTRACT(2, 0, value);
size_t cbor_encode_uint32(uint32_t value, unsigned char *buffer, size_t buffer_size) ENC_FIXED_CONTRACT(4, 0, value);
size_t cbor_encode_uint64(uint64_t value, unsigned char *buffer, size_t buffer_size) ENC_FIXED_CONTRACT(8, 0, value);
size_t cbor_encode_uint(uint64_t value, unsigned char *buffer, size_t buffer_size) ENC_SHORTEST_CONTRACT(0, value);
size_t cbor_encode_negint8(uint8_t value, unsigned char *buffer, size_t buffer_size) ENC_8_CONTRACT(1, value);
size_t cbor_encode_negint16(uint16_t value, unsigned char *buffer, size_t buffer_size) ENC_FIXED_CONTRACT(2, 1, value);
size_t cbor_encode_negint32(uint32_t value, unsigned char *buffer, size_t buffer_size) ENC_FIXED_CONTRACT(4, 1, value);
size_t cbor_encode_negint64(uint64_t value, unsigned char *buffer, size_t buffer_size) ENC_FIXED_CONTRACT(8, 1, value);
size_t cbor_encode_negint(uint64_t value, unsigned char *buffer, size_t buffer_size) ENC_SHORTEST_CONTRACT(1, value);
size_t cbor_encode_bytestring_start(size_t length, unsigned char *buffer, size_t buffer_size) ENC_SHORTEST_CONTRACT(2, length);
size_t cbor_encode_string_start(size_t length, unsigned char *buffer, size_t buffer_size) ENC_SHORTEST_CONTRACT(3, length);
size_t cbor_encode_array_start(size_t length, unsigned char *buffer, size_t buffer_size) ENC_SHORTEST_CONTRACT(4, length);
size_t cbor_encode_map_start(size_t length, unsigned char *buffer, size_t buffer_size) ENC_SHORTEST_CONTRACT(5, length);
size_t cbor_encode_tag(uint64_t value, unsigned char *buffer, size_t buffer_size) ENC_SHORTEST_CONTRACT(6, value);
size_t cbor_encode_indef_bytestring_start(unsigned char *buffer, size_t buffer_size) ENC_BYTE_CONTRACT(0x5F);
size_t cbor_encode_indef_string_start(unsigned char *buffer, size_t buffer_size) ENC_BYTE_CONTRACT(0x7F);
size_t cbor_encode_indef_array_start(unsigned char *buffer, size_t buffer_size) ENC_BYTE_CONTRACT(0x9F);
size_t cbor_encode_indef_map_start(unsigned char *buffer, size_t buffer_size) ENC_BYTE_CONTRACT(0xBF);
size_t cbor_encode_break(unsigned char *buffer, size_t buffer_size) ENC_BYTE_CONTRACT(0xFF);
size_t cbor_encode_null(unsigned char *buffer, size_t buffer_size) ENC_BYTE_CONTRACT(0xF6);
size_t cbor_encode_undef(unsigned char *buffer, size_t buffer_size) ENC_BYTE_CONTRACT(0xF7);
size_t cbor_encode_bool(bool value, unsigned char *buffer, size_t buffer_size) ENC_BYTE_CONTRACT(value ? 0xF5 : 0xF4);
/* simple values: E0+v up to 23, F8 v above (RFC 8949 section 3.3) */
size_t cbor_encode_ctrl(uint8_t value, unsigned char *buffer, size_t buffer_size) ENC_8_CONTRACT(7, value);

/* floats: bit pattern at the named width, NaN canonicalised (C15) */
#define F32_BITS(f) (((union { float as_f; uint32_t as_u; }){.as_f = (f)}).as_u)
#define F64_BITS(d) (((union { double as_d; uint64_t as_u; }){.as_d = (d)}).as_u)
size_t cbor_encode_single(float value, unsigned char *buffer, size_t buffer_size)
ENC_FIXED_CONTRACT(4, 7, (spec_f32_is_nan(F32_BITS(value)) ? (uint32_t)0x7FC00000u : F32_BITS(value)));
size_t cbor_encode_double(double value, unsigned char *buffer, size_t buffer_size)
ENC_FIXED_CONTRACT(8, 7, (spec_f64_is_nan(F64_BITS(value)) ? (uint64_t)0x7FF8000000000000ull : F64_BITS(value)));
/* half: total (3 bytes, F9 xx xx, for every float); exact value relation is in the C15 proofs */
size_t cbor_encode_half(float value, unsigned char *buffer, size_t buffer_size)
__CPROVER_requires(__CPROVER_w_ok(buffer, buffer_size))
__CPROVER_assigns(buffer_size >= 3 : __CPROVER_object_upto(buffer, 3))
__CPROVER_ensures(__CPROVER_return_value == (buffer_size >= 3 ? (size_t)3 : (size_t)0))
__CPROVER_ensures(buffer_size >= 3 ==> buffer[0] == 0xF9)
__CPROVER_ensures((buffer_size >= 3 && spec_f32_is_nan(F32_BITS(value))) ==> (buffer[1] == 0x7E && buffer[2] == 0x00));
#endif
