/* Allocator model: the "configured allocator" of C06/C13/C20 (DESIGN 3.4).
 * Every request may be refused independently (nondeterministic), which subsumes the
 * "k-th alone" and "k-th and all later" fault schedules.  Ghost counters record traffic. */
#ifndef VERIF_ALLOC_MODEL_H
#define VERIF_ALLOC_MODEL_H
#include <stdbool.h>
#include <stddef.h>
#include <stdint.h>

/* largest object the model ever grants: a limit of CBMC's object/offset pointer encoding,
 * stated in every evidence file (not an unwinding bound) */
#define VERIF_MAXOBJ ((size_t)1 << 40)

extern size_t g_malloc_calls, g_realloc_calls, g_free_calls;
extern size_t g_last_req;  /* size of the most recent malloc/realloc request */
extern bool g_refused;     /* some request was refused */
extern size_t g_live;      /* net number of live blocks obtained through the model (exact accounting: leaks) */
extern bool g_alloc_forbidden; /* set by "allocates nothing" proofs: any allocator call fails an obligation */

size_t nondet_size_for_live(void);
void *v_malloc(size_t n);
void *v_realloc(void *p, size_t n);
void v_free(void *p);

/* called first thing in every harness body (DFCC havocs non-const statics) */
/* the ghost variables every allocating contract lists in its frame */
#define ALLOC_GHOSTS g_malloc_calls, g_realloc_calls, g_free_calls, g_last_req, g_refused, g_live

#define VERIF_ALLOC_RESET()                                          \
  do {                                                               \
    g_malloc_calls = 0; g_realloc_calls = 0; g_free_calls = 0;       \
    g_last_req = 0; g_refused = false; g_alloc_forbidden = false;    \
    g_live = nondet_size_for_live();                                 \
    __CPROVER_assume(g_live <= ((size_t)1 << 40));                   \
  } while (0)
#endif
