/* Ghost state shared by contracts and harnesses (declarations only). */
#ifndef VERIF_GHOST_H
#define VERIF_GHOST_H
#include "cbor/common.h" /* the real header: item type, allocator pointer declarations */
#include "stubs/alloc_model.h"
#endif
