/* Generic harness for one encoder (selected with -DENC_FN=..., -DENC_ARGT=<type> or -DENC_NOVAL,
 * -DENC_OFFSET for the internal ones): value, buffer size and the offset of the buffer inside its
 * object are fully symbolic; the object ends exactly at buffer+size. */
#include <stdlib.h>
#include "cbor.h"
#include "cbor/internal/encoders.h"
#include "stubs/alloc_model.h"

size_t nondet_size(void);
uint8_t nondet_u8(void);

void harness(void) {
  VERIF_ALLOC_RESET();
  verif_bind_allocator();
  g_alloc_forbidden = true; /* encoders request no memory (C13) */
  size_t in_size = nondet_size(), in_off = nondet_size();
  __CPROVER_assume(in_size <= VERIF_MAXOBJ && in_off <= 16);
  unsigned char *base = malloc(in_off + in_size);
  __CPROVER_assume(base != NULL);
  unsigned char *buf = base + in_off;
#ifndef ENC_NOVAL
  ENC_ARGT in_value;
#endif
#ifdef ENC_OFFSET
  uint8_t in_major = nondet_u8();
  __CPROVER_assume(in_major < 8);
#endif
  size_t r = ENC_FN(
#ifndef ENC_NOVAL
      in_value,
#endif
      buf, in_size
#ifdef ENC_OFFSET
      , (uint8_t)(in_major << 5)
#endif
  );
  __CPROVER_assert(g_malloc_calls == 0 && g_realloc_calls == 0 && g_free_calls == 0,
                   "C13,C07: encoders request and release no memory");
  __CPROVER_assert(r != 0, "COVER buffer too small");
  __CPROVER_assert(r == 0, "COVER encoded");
  __CPROVER_assert(!(r != 0 && in_size > r && in_off > 0), "COVER slack on both sides");
}
