/* Symbolic shallow-valid items for the harnesses: every field that the validity predicate leaves open
 * is nondeterministic (type flavour, width, sizes, counts, reference count, contents, child pointers). */
#ifndef VERIF_MKITEM_H
#define VERIF_MKITEM_H
#include <stdlib.h>
#include "cbor.h"
#include "contracts/valid.h"

size_t nondet_size(void);
unsigned nondet_uint(void);
bool nondet_bool(void);
void *nondet_ptr(void);

static inline void *mk_block(size_t n) {
  void *p = malloc(n);
  __CPROVER_assume(p != NULL);
  return p;
}

/* typed allocation: CBMC recognises malloc(n * sizeof(T)) and models the block as T[n] (element-wise
 * accesses) instead of a byte array of symbolic size - an order of magnitude smaller formulas */
#define MK_TYPED_BLOCK(dst, T, n)                   \
  do {                                              \
    T *verif_p = malloc((n) * sizeof(T));           \
    __CPROVER_assume(verif_p != NULL);              \
    (dst) = (void *)verif_p;                        \
  } while (0)

static inline cbor_item_t *mk_hdr(size_t tail) {
  cbor_item_t *it = mk_block(sizeof(cbor_item_t) + tail);
  __CPROVER_assume(it->refcount >= 1 && it->refcount < SIZE_MAX / 2);
  return it;
}

/* Integers / floats use a combined allocation: node + payload.  Three modes:
 *  - default: symbolic width, block of exactly sizeof(node) + payload bytes (a one-byte payload overrun is an
 *    out-of-bounds access) - used where payload accesses are the point of the proof;
 *  - -DVERIF_INT_WIDTH=k / -DVERIF_FLOAT_WIDTH=k: that width only, exact block of constant size;
 *  - -DVERIF_FIXED_NODES: symbolic width in a block of constant (maximal) size - used by proofs that dispatch
 *    on node->type and never touch the payload (CBMC propagates the type constant only through objects of
 *    constant size; with a symbolic size every switch arm is explored: 66k steps instead of 2k, probed). */
static inline cbor_item_t *mk_int(void) {
#if defined(VERIF_INT_WIDTH)
  unsigned w = VERIF_INT_WIDTH;
  cbor_item_t *it = mk_hdr((size_t)1 << VERIF_INT_WIDTH);
#elif defined(VERIF_FIXED_NODES)
  unsigned w = nondet_uint();
  __CPROVER_assume(w <= 3);
  cbor_item_t *it = mk_hdr(8);
#else
  unsigned w = nondet_uint();
  __CPROVER_assume(w <= 3);
  cbor_item_t *it = mk_hdr((size_t)1 << w);
#endif
#if defined(VERIF_INT_TYPE)
  it->type = VERIF_INT_TYPE;
#else
  it->type = nondet_bool() ? CBOR_TYPE_UINT : CBOR_TYPE_NEGINT;
#endif
  it->metadata.int_metadata.width = (cbor_int_width)w;
  it->data = (unsigned char *)it + sizeof(cbor_item_t);
  return it;
}

static inline cbor_item_t *mk_float_ctrl(void) {
#if defined(VERIF_FLOAT_WIDTH)
  unsigned w = VERIF_FLOAT_WIDTH;
  cbor_item_t *it = mk_hdr(VERIF_FLOAT_WIDTH == 0 ? 0 : VERIF_FLOAT_WIDTH == 3 ? 8 : 4);
#elif defined(VERIF_FIXED_NODES)
  unsigned w = nondet_uint();
  __CPROVER_assume(w <= 3);
  cbor_item_t *it = mk_hdr(8);
#else
  unsigned w = nondet_uint();
  __CPROVER_assume(w <= 3);
  cbor_item_t *it = mk_hdr(w == 0 ? 0 : w == 3 ? 8 : 4);
#endif
  it->type = CBOR_TYPE_FLOAT_CTRL;
  it->metadata.float_ctrl_metadata.width = (cbor_float_width)w;
  it->data = w == 0 ? nondet_ptr() : (unsigned char *)it + sizeof(cbor_item_t);
  return it;
}

static inline cbor_item_t *mk_def_bytestring(void) {
  cbor_item_t *it = mk_hdr(0);
  it->type = CBOR_TYPE_BYTESTRING;
  it->metadata.bytestring_metadata.type = _CBOR_METADATA_DEFINITE;
  size_t n = nondet_size();
  __CPROVER_assume(n <= VERIF_MAXOBJ);
  it->metadata.bytestring_metadata.length = n;
  it->data = mk_block(n); /* decoded / built strings always own a buffer, also of length 0 (see DESIGN 11.5: handle-less fresh items) */
  return it;
}

static inline cbor_item_t *mk_def_string(void) {
  cbor_item_t *it = mk_hdr(0);
  it->type = CBOR_TYPE_STRING;
  it->metadata.string_metadata.type = _CBOR_METADATA_DEFINITE;
  size_t n = nondet_size();
  __CPROVER_assume(n <= VERIF_MAXOBJ);
  it->metadata.string_metadata.length = n;
  it->data = mk_block(n); /* decoded / built strings always own a buffer, also of length 0 (see DESIGN 11.5: handle-less fresh items) */
  return it;
}

static inline void mk_chunked_data(cbor_item_t *it) {
  struct cbor_indefinite_string_data *d = mk_block(sizeof(*d));
  __CPROVER_assume(d->chunk_count <= d->chunk_capacity && d->chunk_capacity <= VERIF_MAXCNT);
  if (d->chunk_capacity == 0) d->chunks = NULL; else MK_TYPED_BLOCK(d->chunks, cbor_item_t *, d->chunk_capacity);
  it->data = (unsigned char *)d;
}

static inline cbor_item_t *mk_indef_bytestring(void) {
  cbor_item_t *it = mk_hdr(0);
  it->type = CBOR_TYPE_BYTESTRING;
  it->metadata.bytestring_metadata.type = _CBOR_METADATA_INDEFINITE;
  mk_chunked_data(it);
  return it;
}

static inline cbor_item_t *mk_indef_string(void) {
  cbor_item_t *it = mk_hdr(0);
  it->type = CBOR_TYPE_STRING;
  it->metadata.string_metadata.type = _CBOR_METADATA_INDEFINITE;
  mk_chunked_data(it);
  return it;
}

static inline cbor_item_t *mk_bytestring(void) { return nondet_bool() ? mk_def_bytestring() : mk_indef_bytestring(); }
static inline cbor_item_t *mk_string(void) { return nondet_bool() ? mk_def_string() : mk_indef_string(); }

/* definite or indefinite array with symbolic capacity and fill; slots hold arbitrary pointers */
static inline cbor_item_t *mk_array(void) {
  cbor_item_t *it = mk_hdr(0);
  it->type = CBOR_TYPE_ARRAY;
  it->metadata.array_metadata.type = nondet_bool() ? _CBOR_METADATA_DEFINITE : _CBOR_METADATA_INDEFINITE;
  size_t a = nondet_size(), e = nondet_size();
  __CPROVER_assume(e <= a && a <= VERIF_MAXCNT);
  it->metadata.array_metadata.allocated = a;
  it->metadata.array_metadata.end_ptr = e;
  if (a == 0 && it->metadata.array_metadata.type == _CBOR_METADATA_INDEFINITE)
    it->data = NULL;
  else
    MK_TYPED_BLOCK(it->data, cbor_item_t *, a);
  return it;
}

/* Pair storage: arrays of two-pointer structs of SYMBOLIC length made every map proof run out of memory
 * (MiniSat, CaDiCaL, cvc5, 24 GB).  Map proofs therefore define VERIF_MAP_CAP (a small capacity bound) and are
 * registered as bounded stand-ins; the same code shapes are proved without bound for arrays. */
#ifndef VERIF_MAP_CAP
#define VERIF_MAP_CAP VERIF_MAXCNT
#endif
static inline cbor_item_t *mk_map(void) {
  cbor_item_t *it = mk_hdr(0);
  it->type = CBOR_TYPE_MAP;
  it->metadata.map_metadata.type = nondet_bool() ? _CBOR_METADATA_DEFINITE : _CBOR_METADATA_INDEFINITE;
  size_t a = nondet_size(), e = nondet_size();
#ifdef VERIF_MAP_HEAD_ONLY
  /* an EMPTY map of any capacity (no pair is ever read): the head / size facts for capacities across the head-width
   * boundaries 23/24, 255/256, ..., which the capacity-bounded map proofs cannot reach */
  __CPROVER_assume(e == 0 && a <= VERIF_MAXCNT);
#else
  __CPROVER_assume(e <= a && a <= VERIF_MAP_CAP);
#endif
  it->metadata.map_metadata.allocated = a;
  it->metadata.map_metadata.end_ptr = e;
  if (a == 0 && it->metadata.map_metadata.type == _CBOR_METADATA_INDEFINITE)
    it->data = NULL;
  else {
#ifdef VERIF_MAP_UNTYPED
    it->data = mk_block(a * sizeof(struct cbor_pair)); /* byte block, as the library's own allocations are */
#else
    MK_TYPED_BLOCK(it->data, struct cbor_pair, a);
#endif
  }
  return it;
}

static inline cbor_item_t *mk_tag(void) {
  cbor_item_t *it = mk_hdr(0);
  it->type = CBOR_TYPE_TAG;
  it->data = NULL;
  return it;
}

/* an item of any of the eight major types */
static inline cbor_item_t *mk_any(void) {
  unsigned k = nondet_uint();
  __CPROVER_assume(k < 8);
  switch (k) {
    case 0: return mk_int();
    case 1: return mk_float_ctrl();
    case 2: return mk_bytestring();
    case 3: return mk_string();
    case 4: return mk_array();
    case 5: return mk_map();
    case 6: return mk_tag();
    default: return mk_int();
  }
}

/* an element as seen by a container operation: only the node header matters (type, reference count,
 * releasability of its data block); any major type, not chunked */
static inline cbor_item_t *mk_elem(void) {
  cbor_item_t *it = mk_hdr(0);
  unsigned t = nondet_uint();
  __CPROVER_assume(t < 8);
  it->type = (cbor_type)t;
  it->metadata.bytestring_metadata.type = _CBOR_METADATA_DEFINITE;
  it->metadata.string_metadata.type = _CBOR_METADATA_DEFINITE;
  it->data = (t == CBOR_TYPE_TAG || nondet_bool()) ? NULL : mk_block(8);
  return it;
}

/* a leaf usable as a child / pushee: any node kind, header only is touched by the operations under proof */
static inline cbor_item_t *mk_leaf(void) { return nondet_bool() ? mk_int() : mk_float_ctrl(); }

#endif
