/* src/allocators.c cannot be linked under --dfcc (goto-instrument 6.11 aborts on the static
 * initialiser "= free"); the three pointers are defined here and bound to the allocator model
 * inside each harness body.  allocators.c itself is verified by the plain-CBMC proof
 * "allocators_plain". */
#include <stddef.h>
#include "stubs/alloc_model.h"
typedef void *(*_cbor_malloc_t)(size_t);
typedef void *(*_cbor_realloc_t)(void *, size_t);
typedef void (*_cbor_free_t)(void *);
_cbor_malloc_t _cbor_malloc;
_cbor_realloc_t _cbor_realloc;
_cbor_free_t _cbor_free;
/* Taking the addresses here makes the model functions candidates of CBMC's function-pointer removal
 * already in the library-stage binary (needed when --replace-calls is run on it). */
void verif_bind_allocator(void) {
  _cbor_malloc = v_malloc;
  _cbor_realloc = v_realloc;
  _cbor_free = v_free;
}
