/* Native replay for C16: argv in_len= w_0= .. w_15= (bytes) or in_state= in_byte= (one DFA step). */
#include <stdio.h>
#include <stdlib.h>
#include <string.h>
#include "cbor.h"
#include "cbor/internal/unicode.h"
#include "spec/utf8.h"
uint32_t _cbor_unicode_decode(uint32_t *state, uint32_t *codep, uint32_t byte);
static int has(int argc, char **argv, const char *k) {
  size_t n = strlen(k);
  for (int i = 1; i < argc; i++) if (!strncmp(argv[i], k, n) && argv[i][n] == '=') return 1;
  return 0;
}
static unsigned long long arg(int argc, char **argv, const char *k) {
  size_t n = strlen(k);
  for (int i = 1; i < argc; i++)
    if (!strncmp(argv[i], k, n) && argv[i][n] == '=') return strtoull(argv[i] + n + 1, 0, 0);
  return 0;
}
int main(int argc, char **argv) {
  if (has(argc, argv, "in_state")) {
    uint32_t st = (uint32_t)arg(argc, argv, "in_state"), b = (uint32_t)arg(argc, argv, "in_byte"), cp = 0;
    if (st > 8 || b > 255) { printf("outside precondition\n"); return 0; }
    uint32_t e = spec_utf8_step(st, b);
    uint32_t r = _cbor_unicode_decode(&st, &cp, b);
    printf("step state=%llu byte=%02x -> %u (spec %u)\n", arg(argc, argv, "in_state"), b, r, e);
    return (r == e && st == e) ? 0 : 3;
  }
  size_t n = arg(argc, argv, "in_len");
  if (n > 16) n = 16;
  unsigned char *buf = malloc(n ? n : 1);
  for (size_t i = 0; i < n; i++) { char k[8]; snprintf(k, sizeof k, "w_%zu", i); buf[i] = (unsigned char)arg(argc, argv, k); }
  struct _cbor_unicode_status st;
  size_t r = _cbor_unicode_codepoint_count(buf, n, &st);
  size_t e = spec_utf8_count(buf, n);
  printf("len=%zu count=%zu status=%d spec=%zd\n", n, r, (int)st.status, (ssize_t)e);
  int ok = e == (size_t)-1 ? (r == 0 && st.status == _CBOR_UNICODE_BADCP) : (r == e && st.status == _CBOR_UNICODE_OK);
  free(buf);
  return ok ? 0 : 3;
}
