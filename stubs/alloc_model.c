#include <stdlib.h>
#include "stubs/alloc_model.h"

struct verif_alloc_ghost g_a;
bool g_alloc_forbidden;
bool nondet_bool(void);

void *v_malloc(size_t n) {
  __CPROVER_assert(!g_alloc_forbidden, "C13: this operation must request no memory (malloc)");
  g_malloc_calls++;
  g_last_req = n;
  if (n > VERIF_MAXOBJ || nondet_bool()) {
    g_refused = true;
    return NULL;
  }
  void *p = malloc(n);
  __CPROVER_assume(p != NULL);
  g_live++;
  return p;
}

void *v_realloc(void *p, size_t n) {
  __CPROVER_assert(!g_alloc_forbidden, "C13: this operation must request no memory (realloc)");
  g_realloc_calls++;
  g_last_req = n;
  if (n > VERIF_MAXOBJ || nondet_bool()) {
    g_refused = true;
    return NULL;
  }
  /* CBMC's realloc model: checks p is NULL or a live dynamic object at offset 0, allocates a
   * fresh block, copies the common prefix, frees the old block */
  void *q = realloc(p, n);
  __CPROVER_assume(q != NULL);
  if (p == NULL) g_live++;
  return q;
}

void v_free(void *p) {
  __CPROVER_assert(!g_alloc_forbidden, "C13: this operation must release no memory (free)");
  g_free_calls++;
  if (p != NULL) g_live--;
  /* CBMC's free model carries the obligations: NULL or live dynamic object, offset 0, not freed twice */
  free(p);
}
