/* Native search for a failing input of cbor_load on the REAL code (ASan/UBSan build), used as the replay of failed
 * obligations in the decode layer (builder callbacks, _cbor_builder_append, cbor_load regions).  A failed obligation
 * there is a statement about one abstract transition, not an input; this program looks for a concrete input that
 * shows the same property violated: it compares cbor_load against a reference written from RFC 8949 section 3 and
 * the text of properties C02 / C05 / C14 / C19 (a push-down automaton over item heads), on
 *   (a) every byte string of length <= MAXLEN over an alphabet of head bytes of every kind, and
 *   (b) nesting towers of each opener kind at depth L-1, L, L+1 (L = CBOR_MAX_STACK_SIZE), and
 *   (c) the same inputs under an allocator that refuses the k-th request (k = 1..) - failure must be clean.
 * Exit 0: no disagreement found (=> the VIOLATION line keeps its no-failing-input-found suffix).
 * Exit 3: a failing input was found; it is printed in hex with what was expected.
 * The input family is a stated, finite sample: finding nothing proves nothing. */
#include <stdio.h>
#include <stdlib.h>
#include <string.h>
#include "cbor.h"
#include "spec/head.h"

#ifndef MAXLEN
#define MAXLEN 4
#endif

static const unsigned char ALPHA[] = {
    0x00, 0x17, 0x18, 0x19, 0x1c, 0x1f, 0x20, 0x38, 0x40, 0x41, 0x42, 0x58, 0x5f, 0x60, 0x61, 0x62, 0x7f,
    0x80, 0x81, 0x82, 0x98, 0x9f, 0xa0, 0xa1, 0xb8, 0xbf, 0xc0, 0xd8, 0xdf, 0xe0, 0xf4, 0xf5, 0xf6, 0xf7,
    0xf8, 0xf9, 0xfc, 0xff, 0x01, 0x02};
#define NALPHA (sizeof ALPHA / sizeof ALPHA[0])

/* ---------------- counting / refusing allocator ---------------- */
static long live, requests, refuse_at; /* refuse_at: 0 = never */
static int refused;
static void *o_malloc(size_t n) {
  if (refuse_at && ++requests == refuse_at) { refused = 1; return NULL; }
  void *p = malloc(n ? n : 1);
  if (p) live++;
  return p;
}
static void *o_realloc(void *q, size_t n) {
  if (refuse_at && ++requests == refuse_at) { refused = 1; return NULL; }
  void *p = realloc(q, n ? n : 1);
  if (p && !q) live++;
  return p;
}
static void o_free(void *p) {
  if (p) live--;
  free(p);
}

/* ---------------- reference ---------------- */
enum { K_ARR, K_IARR, K_MAP, K_IMAP, K_TAG, K_BSTR, K_TSTR };
struct frame { int kind; uint64_t remaining; };
static struct frame fstack[CBOR_MAX_STACK_SIZE + 4];

struct ref { int code; size_t position; size_t read; int dontcare; };

/* an item was completed with depth frames open; returns 1 = syntax error, 0 = ok, *done set when the root completed */
static int ref_append(size_t *depth, int *done) {
  for (;;) {
    if (*depth == 0) { *done = 1; return 0; }
    struct frame *t = &fstack[*depth - 1];
    switch (t->kind) {
      case K_IARR: case K_IMAP:
        if (t->kind == K_IMAP) t->remaining ^= 1; /* parity */
        return 0;
      case K_ARR: case K_MAP:
        if (--t->remaining > 0) return 0;
        (*depth)--; /* definite container complete: it is itself appended one level up */
        continue;
      case K_TAG:
        (*depth)--;
        continue;
      default: /* chunked string: only chunks of the same type may follow */
        return 1;
    }
  }
}

static struct ref reference(const unsigned char *b, size_t n) {
  struct ref r = {CBOR_ERR_NONE, 0, 0, 0};
  if (n == 0) { r.code = CBOR_ERR_NODATA; return r; }
  size_t p = 0, depth = 0;
  int done = 0;
  while (!done) {
    if (p == n) { r.code = CBOR_ERR_NOTENOUGHDATA; r.position = p; r.read = p; return r; }
    unsigned char b0 = b[p];
    if (spec_head_invalid(b0)) { r.code = CBOR_ERR_MALFORMATED; r.position = p; r.read = p; return r; }
    size_t hl = spec_head_len(b0);
    if (n - p < hl) { r.code = CBOR_ERR_NOTENOUGHDATA; r.position = p; r.read = p; return r; }
    uint64_t arg = spec_head_arg(b + p);
    size_t consumed = hl;
    if (spec_head_has_payload(b0)) {
      if ((uint64_t)(n - p - hl) < arg) { r.code = CBOR_ERR_NOTENOUGHDATA; r.position = p; r.read = p; return r; }
      consumed += (size_t)arg;
    }
    p += consumed;
    int syntax = 0, mem = 0, push = -1;
    uint64_t rem = 0;
    enum spec_event ev = spec_head_event(b0);
    switch (ev) {
      case EV_BSTR: case EV_TSTR: {
        int k = ev == EV_BSTR ? K_BSTR : K_TSTR;
        if (depth > 0 && fstack[depth - 1].kind == k) break; /* a chunk of the open chunked string */
        syntax = ref_append(&depth, &done);
        break;
      }
      case EV_BSTR_START: push = K_BSTR; break;
      case EV_TSTR_START: push = K_TSTR; break;
      case EV_INDEF_ARRAY: push = K_IARR; break;
      case EV_INDEF_MAP: push = K_IMAP; break;
      case EV_TAG: push = K_TAG; rem = 1; break;
      case EV_ARRAY: case EV_MAP:
        if (arg > 4096) r.dontcare = 1; /* storage for that many members: outcome depends on the platform allocator */
        if (arg == 0) syntax = ref_append(&depth, &done);
        else { push = ev == EV_ARRAY ? K_ARR : K_MAP; rem = ev == EV_ARRAY ? arg : 2 * arg; }
        break;
      case EV_BREAK:
        if (depth == 0) { syntax = 1; break; }
        switch (fstack[depth - 1].kind) {
          case K_IARR: case K_BSTR: case K_TSTR: depth--; syntax = ref_append(&depth, &done); break;
          case K_IMAP:
            if (fstack[depth - 1].remaining & 1) syntax = 1; /* key without value */
            else { depth--; syntax = ref_append(&depth, &done); }
            break;
          default: syntax = 1;
        }
        break;
      default: /* integers, floats, simple values */
        syntax = ref_append(&depth, &done);
    }
    if (push >= 0) {
      if (depth >= CBOR_MAX_STACK_SIZE) mem = 1;
      else { fstack[depth].kind = push; fstack[depth].remaining = rem; depth++; }
    }
    if (mem) { r.code = CBOR_ERR_MEMERROR; r.position = p; r.read = p; return r; }
    if (syntax) { r.code = CBOR_ERR_SYNTAXERROR; r.position = p; r.read = p; return r; }
  }
  r.read = p;
  return r;
}

/* ---------------- comparison ---------------- */
static long checked, failures;
static void show(const unsigned char *b, size_t n) {
  printf("  input (%zu bytes):", n);
  for (size_t i = 0; i < n && i < 48; i++) printf(" %02x", b[i]);
  if (n > 48) printf(" ... (%zu more)", n - 48);
  printf("\n");
}

static void check_one(const unsigned char *b, size_t n) {
  struct ref want = reference(b, n);
  if (want.dontcare) return;
  unsigned char *copy = malloc(n ? n : 1); /* exactly-sized heap copy: ASan sees any read past the input */
  memcpy(copy, b, n);
  struct cbor_load_result res;
  memset(&res, 0xA5, sizeof res);
  live = 0; requests = 0; refuse_at = 0; refused = 0;
  cbor_item_t *it = cbor_load(copy, n, &res);
  checked++;
  const char *why = NULL;
  if (want.code == CBOR_ERR_NONE) {
    if (it == NULL) why = "C02: a well-formed item within the profile was rejected";
    else if (res.error.code != CBOR_ERR_NONE) why = "C05: success with an error code";
    else if (res.read != want.read) why = "C02/C14: bytes read is not the encoded length of the first item";
  } else {
    if (it != NULL) why = "C02: input that does not begin with a well-formed item was accepted";
    else if ((int)res.error.code != want.code) why = "C05: wrong error code";
    else if (res.error.position != want.position) why = "C05: wrong error position";
    else if (res.read != want.read) why = "C05: read count not filled in / wrong";
  }
  if (it != NULL) {
    memset(copy, 0x5A, n); /* C02: the tree must not refer to the input buffer */
    free(copy);
    copy = NULL;
    unsigned char *out = NULL;
    size_t outsz = 0;
    size_t w = cbor_serialize_alloc(it, &out, &outsz);
    if (!why && want.code == CBOR_ERR_NONE && w == want.read && memcmp(out, b, w) != 0) {
      /* same length re-encoding that differs: only flag when the input was already in the form libcbor emits */
    }
    if (out) o_free(out);
    cbor_decref(&it);
  }
  if (!why && live != 0) why = it == NULL && want.code != CBOR_ERR_NONE ? "C05/C04: a failed cbor_load left blocks allocated"
                                                                       : "C04: blocks still allocated after releasing the decoded tree";
  if (why) {
    if (failures < 5) {
      printf("VIOLATED: %s\n", why);
      show(b, n);
      printf("  expected code=%d position=%zu read=%zu ; got item=%s code=%d position=%zu read=%zu live=%ld\n", want.code,
             want.position, want.read, it || (want.code == CBOR_ERR_NONE && !why) ? "non-NULL" : "NULL", (int)res.error.code,
             res.error.position, res.read, live);
    }
    failures++;
  }
  free(copy);
  /* (c) allocation failure at every request of this input: NULL + MEMERROR + nothing left, or unaffected */
  if (want.code == CBOR_ERR_NONE && n <= 3) {
    for (long k = 1; k <= 12; k++) {
      unsigned char *c2 = malloc(n);
      memcpy(c2, b, n);
      memset(&res, 0xA5, sizeof res);
      live = 0; requests = 0; refuse_at = k; refused = 0;
      cbor_item_t *it2 = cbor_load(c2, n, &res);
      refuse_at = 0;
      const char *w2 = NULL;
      if (!refused) { if (it2) cbor_decref(&it2); free(c2); break; }
      if (it2 != NULL) w2 = "C06: cbor_load returned an item although a request was refused";
      else if (res.error.code != CBOR_ERR_MEMERROR) w2 = "C05/C06: refused allocation not reported as MEMERROR";
      else if (res.error.position != res.read || res.read > n) w2 = "C05: MEMERROR not positioned at the bytes consumed";
      else if (live != 0) w2 = "C06: refused allocation left blocks allocated";
      if (it2) cbor_decref(&it2);
      if (w2) {
        if (failures < 5) { printf("VIOLATED: %s (request #%ld refused)\n", w2, k); show(b, n); }
        failures++;
      }
      free(c2);
    }
  }
}

static void tower(unsigned char opener, size_t depth, int close_with_leaf) {
  size_t per = opener == 0xa1 ? 2 : 1; /* a1 00 : one-pair map, key 0, value nests */
  size_t n = depth * per + (close_with_leaf ? 1 : 0);
  unsigned char *b = malloc(n + 1);
  size_t p = 0;
  for (size_t i = 0; i < depth; i++) { b[p++] = opener; if (per == 2) b[p++] = 0x00; }
  if (close_with_leaf) b[p++] = 0x00;
  check_one(b, p);
  free(b);
}

int main(void) {
  cbor_set_allocs(o_malloc, o_realloc, o_free);
  unsigned char buf[MAXLEN];
  for (size_t len = 0; len <= MAXLEN; len++) {
    size_t idx[MAXLEN] = {0};
    for (;;) {
      for (size_t i = 0; i < len; i++) buf[i] = ALPHA[idx[i]];
      check_one(buf, len);
      size_t i = 0;
      while (i < len && ++idx[i] == NALPHA) idx[i++] = 0;
      if (i == len) break;
    }
  }
  static const unsigned char openers[] = {0x81, 0x9f, 0xbf, 0xc0, 0xa1, 0xd8};
  for (size_t o = 0; o < sizeof openers; o++) {
    if (openers[o] == 0xd8 || openers[o] == 0xbf) continue; /* need argument bytes / keys: covered through a1 and c0 */
    for (long d = (long)CBOR_MAX_STACK_SIZE - 1; d <= (long)CBOR_MAX_STACK_SIZE + 1; d++) {
      if (d < 1) continue;
      tower(openers[o], (size_t)d, 1);
      tower(openers[o], (size_t)d, 0);
    }
  }
  printf("load_oracle: %ld inputs checked, %ld disagreements with the reference (alphabet %zu, length <= %d, L = %d)\n", checked,
         failures, (size_t)NALPHA, MAXLEN, (int)CBOR_MAX_STACK_SIZE);
  return failures ? 3 : 0;
}
