/* Containers as bounded / unbounded sequences (C12), with reference-count deltas (C04), failure
 * atomicity and exact allocator traffic (C06, C13, C20).  View = (size, element at the ghost index g_k).
 * Growth law written from the property statement: geometric, factor CBOR_BUFFER_GROWTH (2 in CMakeLists.txt),
 * first growth to 1. */
#ifndef VERIF_C_ITEMS_CONT_H
#define VERIF_C_ITEMS_CONT_H
#include "contracts/items_ops.h"

#define OLD(e) __CPROVER_old(e)
#define GROWN(a) ((a) == 0 ? (size_t)1 : (size_t)2 * (a))

/* ---------------------------------------------------------------- arrays */
cbor_item_t *cbor_new_indefinite_array(void)
ONE_BLOCK_CTOR(sizeof(cbor_item_t),
    RET->type == CBOR_TYPE_ARRAY && AR_META(RET).type == _CBOR_METADATA_INDEFINITE &&
    AR_META(RET).allocated == 0 && AR_META(RET).end_ptr == 0 && RET->data == NULL);

/* node + slot storage for exactly `size` members, every slot NULL; refused when size*8 would wrap */
cbor_item_t *cbor_new_definite_array(size_t size)
__CPROVER_requires(ALLOC_MODEL_BOUND)
__CPROVER_assigns(ALLOC_GHOSTS)
__CPROVER_ensures(g_realloc_calls == OLD(g_realloc_calls))
__CPROVER_ensures(RET == NULL ==> (g_live == OLD(g_live) && (g_refused || size >= ((size_t)1 << 60))))
__CPROVER_ensures(RET == NULL || (__CPROVER_is_fresh(RET, sizeof(cbor_item_t)) && RET->refcount == 1 &&
                                  RET->type == CBOR_TYPE_ARRAY && AR_META(RET).type == _CBOR_METADATA_DEFINITE &&
                                  AR_META(RET).allocated == size && AR_META(RET).end_ptr == 0 &&
                                  size <= VERIF_MAXOBJ / sizeof(cbor_item_t *) &&
                                  __CPROVER_is_fresh(RET->data, size * sizeof(cbor_item_t *)) &&
                                  (g_k < size ==> AR_SLOTS(RET)[g_k] == NULL)))
__CPROVER_ensures(RET == NULL || (g_live == OLD(g_live) + 2 && g_malloc_calls == OLD(g_malloc_calls) + 2 &&
                                  g_free_calls == OLD(g_free_calls) && g_last_req == size * sizeof(cbor_item_t *)));

/* the data pointer is assignable (and the old block releasable) only where growth can happen: a full
 * indefinite container.  Everywhere else the pointer provably stays what it was - which also keeps it a KNOWN
 * pointer for callers that use this contract in replace mode. */
#define CAN_GROW(meta) (meta.type == _CBOR_METADATA_INDEFINITE && meta.end_ptr == meta.allocated)
#define PUSH_FRAME(arr, meta)                                                                   \
  __CPROVER_assigns(ALLOC_GHOSTS, (arr)->metadata, pushee->refcount)                            \
  __CPROVER_assigns(CAN_GROW(meta) : (arr)->data)                                               \
  __CPROVER_assigns(meta.allocated > 0 : __CPROVER_object_whole((arr)->data))                   \
  __CPROVER_frees(CAN_GROW(meta) : (arr)->data)

bool cbor_array_push(cbor_item_t *array, cbor_item_t *pushee)
__CPROVER_requires(ALLOC_MODEL_BOUND && ARRAY_VALID(array) && ITEM_RW(pushee) && pushee->refcount < SIZE_MAX &&
                   pushee != array)
__CPROVER_requires((AR_META(array).type == _CBOR_METADATA_INDEFINITE && AR_META(array).allocated > 0) ==>
                   HEAP_BLOCK(array->data))
__CPROVER_requires(!g_s.valid || g_k >= AR_META(array).end_ptr || AR_SLOTS(array)[g_k] == g_s.item)
PUSH_FRAME(array, AR_META(array))
/* definite: accepts exactly as many entries as were preallocated, then refuses; never touches the allocator */
__CPROVER_ensures(OLD(AR_META(array).type) == _CBOR_METADATA_DEFINITE ==>
                  (RET == (OLD(AR_META(array).end_ptr) < OLD(AR_META(array).allocated)) &&
                   g_realloc_calls == OLD(g_realloc_calls) && AR_META(array).allocated == OLD(AR_META(array).allocated) &&
                   array->data == OLD(array->data)))
/* indefinite with room: accepts, no reallocation */
__CPROVER_ensures((OLD(AR_META(array).type) == _CBOR_METADATA_INDEFINITE &&
                   OLD(AR_META(array).end_ptr) < OLD(AR_META(array).allocated)) ==>
                  (RET && g_realloc_calls == OLD(g_realloc_calls) &&
                   AR_META(array).allocated == OLD(AR_META(array).allocated) && array->data == OLD(array->data)))
/* indefinite and full: exactly one reallocation request of exactly the grown capacity; refused only by the allocator */
__CPROVER_ensures((OLD(AR_META(array).type) == _CBOR_METADATA_INDEFINITE &&
                   OLD(AR_META(array).end_ptr) == OLD(AR_META(array).allocated)) ==>
                  (g_realloc_calls == OLD(g_realloc_calls) + 1 &&
                   g_last_req == GROWN(OLD(AR_META(array).allocated)) * sizeof(cbor_item_t *) &&
                   (RET ? AR_META(array).allocated == GROWN(OLD(AR_META(array).allocated)) : g_refused)))
/* success: view' = view ++ [pushee]; the container took one reference */
__CPROVER_ensures(RET ==> (AR_META(array).end_ptr == OLD(AR_META(array).end_ptr) + 1 &&
                           AR_META(array).end_ptr <= AR_META(array).allocated &&
                           pushee->refcount == OLD(pushee->refcount) + 1))
#define PUSH_GREW(meta) (RET && OLD(meta.type) == _CBOR_METADATA_INDEFINITE && OLD(meta.end_ptr) == OLD(meta.allocated))
/* storage reallocated: a fresh block of the grown capacity (stated before anything is said about its contents) */
__CPROVER_ensures(!PUSH_GREW(AR_META(array)) ||
                  __CPROVER_is_fresh(array->data, GROWN(OLD(AR_META(array).allocated)) * sizeof(cbor_item_t *)))
/* the new element is in the next slot; every earlier element is still in place, on success and on failure,
 * across a reallocation too */
__CPROVER_ensures(RET ==> AR_SLOTS(array)[OLD(AR_META(array).end_ptr)] == pushee)
__CPROVER_ensures((g_s.valid && g_k < OLD(AR_META(array).end_ptr)) ==> AR_SLOTS(array)[g_k] == g_s.item)
/* failure: everything exactly as before */
__CPROVER_ensures(!RET ==> (AR_META(array).end_ptr == OLD(AR_META(array).end_ptr) &&
                            AR_META(array).allocated == OLD(AR_META(array).allocated) &&
                            array->data == OLD(array->data) && pushee->refcount == OLD(pushee->refcount) &&
                            g_live == OLD(g_live)))
/* never anything but realloc; capacity never shrinks; type, refcount of the container untouched */
__CPROVER_ensures(g_malloc_calls == OLD(g_malloc_calls) && g_free_calls == OLD(g_free_calls) &&
                  AR_META(array).allocated >= OLD(AR_META(array).allocated) &&
                  AR_META(array).type == OLD(AR_META(array).type) && array->refcount == OLD(array->refcount) &&
                  array->type == CBOR_TYPE_ARRAY &&
                  g_live == OLD(g_live) + ((RET && OLD(array->data) == NULL && array->data != NULL) ? 1 : 0));

/* out-of-range index: NULL, without touching memory (documented in arrays.h); in range: a NEW reference */
cbor_item_t *cbor_array_get(const cbor_item_t *item, size_t index)
__CPROVER_requires(ARRAY_VALID(item))
__CPROVER_requires(index < AR_META(item).end_ptr ==>
                   (ITEM_RW(AR_SLOTS(item)[index]) && AR_SLOTS(item)[index]->refcount < SIZE_MAX))
__CPROVER_requires(!g_s.valid || index >= AR_META(item).end_ptr || AR_SLOTS(item)[index]->refcount == g_s.refcount)
__CPROVER_assigns(index < AR_META(item).end_ptr : AR_SLOTS(item)[index]->refcount)
__CPROVER_ensures(index >= AR_META(item).end_ptr ==> RET == NULL)
__CPROVER_ensures(index < AR_META(item).end_ptr ==> RET == AR_SLOTS(item)[index])
__CPROVER_ensures((g_s.valid && index < AR_META(item).end_ptr) ==> RET->refcount == g_s.refcount + 1);


/* ---------------------------------------------------------------- maps */
cbor_item_t *cbor_new_indefinite_map(void)
ONE_BLOCK_CTOR(sizeof(cbor_item_t),
    RET->type == CBOR_TYPE_MAP && MP_META(RET).type == _CBOR_METADATA_INDEFINITE &&
    MP_META(RET).allocated == 0 && MP_META(RET).end_ptr == 0 && RET->data == NULL);

cbor_item_t *cbor_new_definite_map(size_t size)
__CPROVER_requires(ALLOC_MODEL_BOUND)
__CPROVER_assigns(ALLOC_GHOSTS)
__CPROVER_ensures(g_realloc_calls == OLD(g_realloc_calls))
__CPROVER_ensures(RET == NULL ==> (g_live == OLD(g_live) && (g_refused || size >= ((size_t)1 << 59))))
__CPROVER_ensures(RET == NULL || (__CPROVER_is_fresh(RET, sizeof(cbor_item_t)) && RET->refcount == 1 &&
                                  RET->type == CBOR_TYPE_MAP && MP_META(RET).type == _CBOR_METADATA_DEFINITE &&
                                  MP_META(RET).allocated == size && MP_META(RET).end_ptr == 0 &&
                                  size <= VERIF_MAXOBJ / sizeof(struct cbor_pair) &&
                                  __CPROVER_is_fresh(RET->data, size * sizeof(struct cbor_pair))))
__CPROVER_ensures(RET == NULL || (g_live == OLD(g_live) + 2 && g_malloc_calls == OLD(g_malloc_calls) + 2 &&
                                  g_free_calls == OLD(g_free_calls) && g_last_req == size * sizeof(struct cbor_pair)));

/* add a key: a new pair (key, no value yet) at the end; same acceptance / growth law as arrays */
bool _cbor_map_add_key(cbor_item_t *item, cbor_item_t *key)
__CPROVER_requires(ALLOC_MODEL_BOUND && MAP_VALID(item) && ITEM_RW(key) && key->refcount < SIZE_MAX && key != item)
__CPROVER_requires((MP_META(item).type == _CBOR_METADATA_INDEFINITE && MP_META(item).allocated > 0) ==> HEAP_BLOCK(item->data))
__CPROVER_requires(!g_s.valid || g_k >= MP_META(item).end_ptr ||
                   (MP_PAIRS(item)[g_k].key == g_s.key && MP_PAIRS(item)[g_k].value == g_s.value))
__CPROVER_assigns(ALLOC_GHOSTS, item->metadata, key->refcount)
__CPROVER_assigns(CAN_GROW(MP_META(item)) : item->data)
__CPROVER_assigns(MP_META(item).allocated > 0 : __CPROVER_object_whole(item->data))
__CPROVER_frees(CAN_GROW(MP_META(item)) : item->data)
__CPROVER_ensures(OLD(MP_META(item).type) == _CBOR_METADATA_DEFINITE ==>
                  (RET == (OLD(MP_META(item).end_ptr) < OLD(MP_META(item).allocated)) &&
                   g_realloc_calls == OLD(g_realloc_calls) && MP_META(item).allocated == OLD(MP_META(item).allocated) &&
                   item->data == OLD(item->data)))
__CPROVER_ensures((OLD(MP_META(item).type) == _CBOR_METADATA_INDEFINITE &&
                   OLD(MP_META(item).end_ptr) < OLD(MP_META(item).allocated)) ==>
                  (RET && g_realloc_calls == OLD(g_realloc_calls) &&
                   MP_META(item).allocated == OLD(MP_META(item).allocated) && item->data == OLD(item->data)))
__CPROVER_ensures((OLD(MP_META(item).type) == _CBOR_METADATA_INDEFINITE &&
                   OLD(MP_META(item).end_ptr) == OLD(MP_META(item).allocated)) ==>
                  (g_realloc_calls == OLD(g_realloc_calls) + 1 &&
                   g_last_req == GROWN(OLD(MP_META(item).allocated)) * sizeof(struct cbor_pair) &&
                   (RET ? MP_META(item).allocated == GROWN(OLD(MP_META(item).allocated)) : g_refused)))
__CPROVER_ensures(RET ==> (MP_META(item).end_ptr == OLD(MP_META(item).end_ptr) + 1 &&
                           MP_META(item).end_ptr <= MP_META(item).allocated &&
                           key->refcount == OLD(key->refcount) + 1))
__CPROVER_ensures(!PUSH_GREW(MP_META(item)) ||
                  __CPROVER_is_fresh(item->data, GROWN(OLD(MP_META(item).allocated)) * sizeof(struct cbor_pair)))
__CPROVER_ensures(RET ==> (MP_PAIRS(item)[OLD(MP_META(item).end_ptr)].key == key &&
                           MP_PAIRS(item)[OLD(MP_META(item).end_ptr)].value == NULL))
__CPROVER_ensures((g_s.valid && g_k < OLD(MP_META(item).end_ptr)) ==>
                  (MP_PAIRS(item)[g_k].key == g_s.key && MP_PAIRS(item)[g_k].value == g_s.value))
__CPROVER_ensures(!RET ==> (MP_META(item).end_ptr == OLD(MP_META(item).end_ptr) &&
                            MP_META(item).allocated == OLD(MP_META(item).allocated) &&
                            item->data == OLD(item->data) && key->refcount == OLD(key->refcount) && g_live == OLD(g_live)))
__CPROVER_ensures(g_malloc_calls == OLD(g_malloc_calls) && g_free_calls == OLD(g_free_calls) &&
                  MP_META(item).allocated >= OLD(MP_META(item).allocated) &&
                  MP_META(item).type == OLD(MP_META(item).type) && item->refcount == OLD(item->refcount) &&
                  item->type == CBOR_TYPE_MAP &&
                  g_live == OLD(g_live) + ((RET && OLD(item->data) == NULL && item->data != NULL) ? 1 : 0));

/* add the value of the most recently added key (documented precondition: _cbor_map_add_key was the previous
 * operation, i.e. there is a last pair); never fails, allocates nothing */
bool _cbor_map_add_value(cbor_item_t *item, cbor_item_t *value)
__CPROVER_requires(MAP_VALID(item) && MP_META(item).end_ptr >= 1 && ITEM_RW(value) && value->refcount < SIZE_MAX && value != item)
__CPROVER_requires(!g_s.valid || g_k >= MP_META(item).end_ptr ||
                   (MP_PAIRS(item)[g_k].key == g_s.key && MP_PAIRS(item)[g_k].value == g_s.value))
__CPROVER_assigns(value->refcount, MP_PAIRS(item)[MP_META(item).end_ptr - 1].value)
__CPROVER_ensures(RET && MP_PAIRS(item)[MP_META(item).end_ptr - 1].value == value &&
                  value->refcount == OLD(value->refcount) + 1)
__CPROVER_ensures((g_s.valid && g_k < MP_META(item).end_ptr) ==>
                  (MP_PAIRS(item)[g_k].key == g_s.key &&
                   (g_k == MP_META(item).end_ptr - 1 || MP_PAIRS(item)[g_k].value == g_s.value)));

/* add a pair = add key, then value; refused exactly when the key is refused, and then nothing changed */
bool cbor_map_add(cbor_item_t *item, struct cbor_pair pair)
__CPROVER_requires(ALLOC_MODEL_BOUND && MAP_VALID(item) && ITEM_RW(pair.key) && pair.key->refcount < SIZE_MAX - 1 &&
                   ITEM_RW(pair.value) && pair.value->refcount < SIZE_MAX - 1 && pair.key != item && pair.value != item)
__CPROVER_requires((MP_META(item).type == _CBOR_METADATA_INDEFINITE && MP_META(item).allocated > 0) ==> HEAP_BLOCK(item->data))
__CPROVER_requires(!g_s.valid || g_k >= MP_META(item).end_ptr ||
                   (MP_PAIRS(item)[g_k].key == g_s.key && MP_PAIRS(item)[g_k].value == g_s.value))
__CPROVER_assigns(ALLOC_GHOSTS, item->metadata, pair.key->refcount, pair.value->refcount)
__CPROVER_assigns(CAN_GROW(MP_META(item)) : item->data)
__CPROVER_assigns(MP_META(item).allocated > 0 : __CPROVER_object_whole(item->data))
__CPROVER_frees(CAN_GROW(MP_META(item)) : item->data)
__CPROVER_ensures(OLD(MP_META(item).type) == _CBOR_METADATA_DEFINITE ==>
                  RET == (OLD(MP_META(item).end_ptr) < OLD(MP_META(item).allocated)))
__CPROVER_ensures((OLD(MP_META(item).type) == _CBOR_METADATA_INDEFINITE && !RET) ==> g_refused)
__CPROVER_ensures(!PUSH_GREW(MP_META(item)) ||
                  __CPROVER_is_fresh(item->data, GROWN(OLD(MP_META(item).allocated)) * sizeof(struct cbor_pair)))
__CPROVER_ensures(RET ==> (MP_META(item).end_ptr == OLD(MP_META(item).end_ptr) + 1 &&
                           MP_META(item).end_ptr <= MP_META(item).allocated &&
                           MP_PAIRS(item)[OLD(MP_META(item).end_ptr)].key == pair.key &&
                           MP_PAIRS(item)[OLD(MP_META(item).end_ptr)].value == pair.value &&
                           (pair.key == pair.value ? pair.key->refcount == OLD(pair.key->refcount) + 2
                                                   : (pair.key->refcount == OLD(pair.key->refcount) + 1 &&
                                                      pair.value->refcount == OLD(pair.value->refcount) + 1))))
__CPROVER_ensures((g_s.valid && g_k < OLD(MP_META(item).end_ptr)) ==>
                  (MP_PAIRS(item)[g_k].key == g_s.key && MP_PAIRS(item)[g_k].value == g_s.value))
__CPROVER_ensures(!RET ==> (MP_META(item).end_ptr == OLD(MP_META(item).end_ptr) &&
                            MP_META(item).allocated == OLD(MP_META(item).allocated) && item->data == OLD(item->data) &&
                            pair.key->refcount == OLD(pair.key->refcount) &&
                            pair.value->refcount == OLD(pair.value->refcount) && g_live == OLD(g_live)));

/* ---------------------------------------------------------------- chunked strings */
#define ADD_CHUNK_CONTRACT(VALID, CHUNK_OK)                                                      \
  __CPROVER_requires(ALLOC_MODEL_BOUND && VALID(item) && CHUNK_OK && chunk->refcount < SIZE_MAX && chunk != item) \
  __CPROVER_requires(CHUNKS(item)->chunk_capacity > 0 ==> HEAP_BLOCK(CHUNKS(item)->chunks))      \
  __CPROVER_requires(!g_s.valid || g_k >= CHUNKS(item)->chunk_count || CHUNKS(item)->chunks[g_k] == g_s.item) \
  __CPROVER_assigns(ALLOC_GHOSTS, chunk->refcount, __CPROVER_object_whole(item->data))           \
  __CPROVER_assigns(CHUNKS(item)->chunk_capacity > 0 : __CPROVER_object_whole(CHUNKS(item)->chunks)) \
  __CPROVER_frees(CHUNKS(item)->chunks)                                                          \
  /* room: accepted without reallocation */                                                      \
  __CPROVER_ensures(OLD(CHUNKS(item)->chunk_count) < OLD(CHUNKS(item)->chunk_capacity) ==>       \
                    (RET && g_realloc_calls == OLD(g_realloc_calls) &&                           \
                     CHUNKS(item)->chunk_capacity == OLD(CHUNKS(item)->chunk_capacity) &&        \
                     CHUNKS(item)->chunks == OLD(CHUNKS(item)->chunks)))                         \
  /* full: exactly one reallocation request of exactly the grown table */                        \
  __CPROVER_ensures(OLD(CHUNKS(item)->chunk_count) == OLD(CHUNKS(item)->chunk_capacity) ==>      \
                    (g_realloc_calls == OLD(g_realloc_calls) + 1 &&                              \
                     g_last_req == GROWN(OLD(CHUNKS(item)->chunk_capacity)) * sizeof(cbor_item_t *) && \
                     (RET ? CHUNKS(item)->chunk_capacity == GROWN(OLD(CHUNKS(item)->chunk_capacity)) : g_refused))) \
  __CPROVER_ensures(RET ==> (CHUNKS(item)->chunk_count == OLD(CHUNKS(item)->chunk_count) + 1 &&  \
                             CHUNKS(item)->chunk_count <= CHUNKS(item)->chunk_capacity &&        \
                             CHUNKS(item)->chunks[OLD(CHUNKS(item)->chunk_count)] == chunk &&    \
                             chunk->refcount == OLD(chunk->refcount) + 1))                       \
  __CPROVER_ensures((g_s.valid && g_k < OLD(CHUNKS(item)->chunk_count)) ==> CHUNKS(item)->chunks[g_k] == g_s.item) \
  __CPROVER_ensures(!RET ==> (CHUNKS(item)->chunk_count == OLD(CHUNKS(item)->chunk_count) &&     \
                              CHUNKS(item)->chunk_capacity == OLD(CHUNKS(item)->chunk_capacity) && \
                              CHUNKS(item)->chunks == OLD(CHUNKS(item)->chunks) &&               \
                              chunk->refcount == OLD(chunk->refcount) && g_live == OLD(g_live))) \
  __CPROVER_ensures(g_malloc_calls == OLD(g_malloc_calls) && g_free_calls == OLD(g_free_calls) && \
                    CHUNKS(item)->chunk_capacity >= OLD(CHUNKS(item)->chunk_capacity) &&         \
                    item->data == OLD(item->data) && item->refcount == OLD(item->refcount) &&    \
                    g_live == OLD(g_live) + ((RET && OLD(CHUNKS(item)->chunks) == NULL) ? 1 : 0))

bool cbor_bytestring_add_chunk(cbor_item_t *item, cbor_item_t *chunk)
ADD_CHUNK_CONTRACT(BYTESTRING_INDEF_VALID,
                   (ITEM_RW(chunk) && chunk->type == CBOR_TYPE_BYTESTRING && BS_META(chunk).type == _CBOR_METADATA_DEFINITE));
bool cbor_string_add_chunk(cbor_item_t *item, cbor_item_t *chunk)
ADD_CHUNK_CONTRACT(STRING_INDEF_VALID, ITEM_RW(chunk));
#endif
