/* Strict UTF-8 per RFC 3629 section 4 (ABNF), as an automaton over "what may come next":
 *
 *   UTF8-1 = %x00-7F
 *   UTF8-2 = %xC2-DF UTF8-tail
 *   UTF8-3 = %xE0 %xA0-BF UTF8-tail / %xE1-EC 2( UTF8-tail ) / %xED %x80-9F UTF8-tail / %xEE-EF 2( UTF8-tail )
 *   UTF8-4 = %xF0 %x90-BF 2( UTF8-tail ) / %xF1-F3 3( UTF8-tail ) / %xF4 %x80-8F 2( UTF8-tail )
 *   UTF8-tail = %x80-BF
 *
 * (no overlong forms: C0/C1, E0 80-9F, F0 80-8F excluded; no surrogates: ED A0-BF excluded; nothing above
 * U+10FFFF: F4 90-BF and F5-FF excluded).  States are numbered so that the correspondence with the
 * table-driven DFA of src/cbor/internal/unicode.c is the identity on numbers. */
#ifndef VERIF_SPEC_UTF8_H
#define VERIF_SPEC_UTF8_H
#include <stddef.h>
#include <stdint.h>

enum spec_utf8_state {
  U_START = 0,  /* at a scalar boundary */
  U_REJECT = 1, /* absorbing */
  U_T1 = 2,     /* one UTF8-tail due */
  U_T2 = 3,     /* two tails due */
  U_E0 = 4,     /* after E0: A0-BF then one tail */
  U_ED = 5,     /* after ED: 80-9F then one tail */
  U_F0 = 6,     /* after F0: 90-BF then two tails */
  U_T3 = 7,     /* three tails due */
  U_F4 = 8      /* after F4: 80-8F then two tails */
};

#define SPEC_IN(b, lo, hi) ((b) >= (lo) && (b) <= (hi))

static inline unsigned spec_utf8_step(unsigned st, unsigned b) {
  switch (st) {
    case U_START:
      if (b <= 0x7F) return U_START;
      if (SPEC_IN(b, 0xC2, 0xDF)) return U_T1;
      if (b == 0xE0) return U_E0;
      if (SPEC_IN(b, 0xE1, 0xEC) || b == 0xEE || b == 0xEF) return U_T2;
      if (b == 0xED) return U_ED;
      if (b == 0xF0) return U_F0;
      if (SPEC_IN(b, 0xF1, 0xF3)) return U_T3;
      if (b == 0xF4) return U_F4;
      return U_REJECT;
    case U_T1: return SPEC_IN(b, 0x80, 0xBF) ? U_START : U_REJECT;
    case U_T2: return SPEC_IN(b, 0x80, 0xBF) ? U_T1 : U_REJECT;
    case U_T3: return SPEC_IN(b, 0x80, 0xBF) ? U_T2 : U_REJECT;
    case U_E0: return SPEC_IN(b, 0xA0, 0xBF) ? U_T1 : U_REJECT;
    case U_ED: return SPEC_IN(b, 0x80, 0x9F) ? U_T1 : U_REJECT;
    case U_F0: return SPEC_IN(b, 0x90, 0xBF) ? U_T2 : U_REJECT;
    case U_F4: return SPEC_IN(b, 0x80, 0x8F) ? U_T2 : U_REJECT;
    default: return U_REJECT;
  }
}

/* number of Unicode scalar values if buf[0..n) is valid, (size_t)-1 otherwise */
static inline size_t spec_utf8_count(const unsigned char *buf, size_t n) {
  unsigned st = U_START;
  size_t count = 0;
  for (size_t i = 0; i < n; i++) {
    st = spec_utf8_step(st, buf[i]);
    if (st == U_REJECT) return (size_t)-1;
    if (st == U_START) count++;
  }
  return st == U_START ? count : (size_t)-1;
}
#endif
