/* Harnesses for constructors, setters, reference-count primitives and container operations.
 * Selected by -D; CALL / MK / PRE are passed as macro text from the registry. */
#include "harness/mkitem.h"
#include "stubs/alloc_model.h"
#include "spec/utf8.h"

uint64_t nondet_u64(void);
float nondet_float(void);
double nondet_double(void);
#include "contracts/unicode.h"

#define SETUP()                                                             \
  VERIF_ALLOC_RESET();                                                      \
  _cbor_malloc = v_malloc; _cbor_realloc = v_realloc; _cbor_free = v_free;  \
  g_k = nondet_size()

#if defined(H_ITEM_OP)
/* one symbolic item `it` (built by MK, restricted by PRE), scalar arguments nd / ndf / ndd */
void harness(void) {
  SETUP();
  g_alloc_forbidden = true;
  cbor_item_t *it = MK();
  uint64_t nd = nondet_u64();
  float ndf = nondet_float();
  double ndd = nondet_double();
  __CPROVER_assume(PRE);
  CALL;
  __CPROVER_assert(0, "COVER operation returned (precondition satisfiable)");
}
#elif defined(H_CTOR)
/* a constructor / builder: every allocator request may be refused independently */
void harness(void) {
  SETUP();
  uint64_t nd = nondet_u64();
  float ndf = nondet_float();
  double ndd = nondet_double();
  bool ndb = nondet_bool();
  cbor_item_t *r = CALL;
  __CPROVER_assert(r == NULL, "COVER constructed");
  __CPROVER_assert(r != NULL, "COVER allocation refused");
}
#elif defined(H_STRING_SET_HANDLE)
void harness(void) {
  SETUP();
  g_alloc_forbidden = true;
  cbor_item_t *it = mk_def_string();
  size_t in_len = nondet_size();
  __CPROVER_assume(in_len <= VERIF_MAXOBJ);
  unsigned char *buf = mk_block(in_len);
  g_u_src = buf; g_u_len = in_len; g_u_calls = 0; g_u_count = 0; g_u_state = U_START;
  cbor_string_set_handle(it, buf, in_len);
  __CPROVER_assert(!(g_u_state == U_START && in_len > 0), "COVER valid text attached");
  __CPROVER_assert(!(g_u_state != U_START), "COVER invalid text attached");
}
#elif defined(H_BYTESTRING_SET_HANDLE)
void harness(void) {
  SETUP();
  g_alloc_forbidden = true;
  cbor_item_t *it = mk_def_bytestring();
  size_t in_len = nondet_size();
  unsigned char *buf = nondet_ptr();
  cbor_bytestring_set_handle(it, buf, in_len);
  __CPROVER_assert(0, "COVER returned");
}
#elif defined(H_TAG_SET_ITEM)
void harness(void) {
  SETUP();
  g_alloc_forbidden = true;
  cbor_item_t *tag = mk_tag(), *child = mk_any();
  cbor_tag_set_item(tag, child);
  __CPROVER_assert(0, "COVER returned");
}
#elif defined(H_TAG_ITEM)
void harness(void) {
  SETUP();
  g_alloc_forbidden = true;
  cbor_item_t *tag = mk_tag(), *child = mk_any();
  tag->metadata.tag_metadata.tagged_item = child;
  cbor_item_t *r = cbor_tag_item(tag);
  __CPROVER_assert(0, "COVER returned");
}
#elif defined(H_BUILD_TAG)
void harness(void) {
  SETUP();
  cbor_item_t *child = mk_any();
  cbor_item_t *r = cbor_build_tag(nondet_u64(), child);
  __CPROVER_assert(r == NULL, "COVER constructed");
  __CPROVER_assert(r != NULL, "COVER allocation refused");
}
#endif
