/* Contracts for src/cbor/internal/memory_utils.c (C20, C06, C13).
 * Attached to the real definitions through these declarations (goto-cc -include). */
#ifndef VERIF_C_MEMORY_UTILS_H
#define VERIF_C_MEMORY_UTILS_H
#include <stdbool.h>
#include <stddef.h>
#include <stdint.h>
#include "contracts/ghost.h"

/* bit length, written without a loop: 64 - clz(x) */
#define SPEC_BITLEN(x) ((x) == 0 ? (size_t)0 : (size_t)(64 - __builtin_clzl((unsigned long)(x))))

size_t _cbor_highest_bit(size_t number)
__CPROVER_ensures(__CPROVER_return_value == SPEC_BITLEN(number))
__CPROVER_assigns();

/* soundness: true only if the mathematical product fits; exactness: the documented bit-length rule */
bool _cbor_safe_to_multiply(size_t a, size_t b)
__CPROVER_ensures(__CPROVER_return_value ==> !__CPROVER_overflow_mult(a, b))
__CPROVER_ensures((a <= 1 || b <= 1) ==> __CPROVER_return_value)
__CPROVER_ensures(__CPROVER_return_value == (a <= 1 || b <= 1 || SPEC_BITLEN(a) + SPEC_BITLEN(b) <= 64))
__CPROVER_assigns();

bool _cbor_safe_to_add(size_t a, size_t b)
__CPROVER_ensures(__CPROVER_return_value == !__CPROVER_overflow_plus(a, b))
__CPROVER_assigns();

/* exact sum, or 0 iff an operand is 0 or the sum wraps */
size_t _cbor_safe_signaling_add(size_t a, size_t b)
__CPROVER_ensures((a == 0 || b == 0 || __CPROVER_overflow_plus(a, b)) ==> __CPROVER_return_value == 0)
__CPROVER_ensures((a != 0 && b != 0 && !__CPROVER_overflow_plus(a, b)) ==>
                  (__CPROVER_return_value == a + b && __CPROVER_return_value != 0))
__CPROVER_assigns();

/* NULL, or a fresh block of exactly item_size*item_count bytes (the product does not wrap) obtained by
 * exactly one malloc request of exactly that size; a refused guard issues no request at all */
void *_cbor_alloc_multiple(size_t item_size, size_t item_count)
__CPROVER_requires(_cbor_malloc == v_malloc)
__CPROVER_requires(g_malloc_calls < SIZE_MAX)
__CPROVER_assigns(ALLOC_GHOSTS)
/* granted: a fresh block of exactly the (non-wrapping) product, obtained by exactly one malloc request */
__CPROVER_ensures(__CPROVER_return_value == NULL ||
                  (__CPROVER_is_fresh(__CPROVER_return_value, item_size * item_count) &&
                   !__CPROVER_overflow_mult(item_size, item_count)))
__CPROVER_ensures(__CPROVER_return_value != NULL ==>
                  (g_last_req == item_size * item_count && g_malloc_calls == __CPROVER_old(g_malloc_calls) + 1 &&
                   item_size * item_count <= VERIF_MAXOBJ /* the model grants no larger block */))
/* the guard is the documented bit-length rule (it also refuses some products that would fit): a request is
 * issued exactly when the guard accepts */
#define SPEC_MUL_GUARD(a, b) ((a) <= 1 || (b) <= 1 || SPEC_BITLEN(a) + SPEC_BITLEN(b) <= 64)
__CPROVER_ensures(SPEC_MUL_GUARD(item_size, item_count)
                      ? g_malloc_calls == __CPROVER_old(g_malloc_calls) + 1
                      : (__CPROVER_return_value == NULL && g_malloc_calls == __CPROVER_old(g_malloc_calls)))
/* a wrapping product issues no request at all */
__CPROVER_ensures(__CPROVER_overflow_mult(item_size, item_count) ==>
                  (__CPROVER_return_value == NULL && g_malloc_calls == __CPROVER_old(g_malloc_calls)))
__CPROVER_ensures(g_malloc_calls <= __CPROVER_old(g_malloc_calls) + 1)
__CPROVER_ensures(g_live == __CPROVER_old(g_live) + (__CPROVER_return_value != NULL ? 1 : 0))
__CPROVER_ensures(g_realloc_calls == __CPROVER_old(g_realloc_calls) && g_free_calls == __CPROVER_old(g_free_calls))
__CPROVER_ensures((__CPROVER_return_value == NULL && g_malloc_calls != __CPROVER_old(g_malloc_calls)) ==> g_refused);
#endif
