/* Contracts on the verbatim regions of cbor_load produced on every run by vlib/extract.py (C05, C01, C02, C14, C19).
 *
 * Loop rule (meta-argument A2, the loop constructs themselves are what the extraction drops):
 *   LOAD_INV holds when the main loop is entered (proof load_first_head, on the real cbor_load);
 *   cbor_load__iteration preserves LOAD_INV when it falls through (returns false) and strictly increases result->read,
 *   which is bounded by source_size: the loop terminates; when it leaves through 'goto error' (returns true) the code is
 *   exactly the one the cause prescribes; cbor_load__exit returns the root with LOAD_INV still true (code NONE);
 *   cbor_load__error_entry positions the error at the bytes consumed; cbor_load__cleanup_iteration releases exactly one
 *   frame (one decref of its item, one free of the frame) and decreases stack.size; cbor_load__error_exit returns NULL. */
#ifndef VERIF_C_LOAD_PARTS_H
#define VERIF_C_LOAD_PARTS_H
#include "contracts/load.h"

/* ghost: the result of the last (assumed) decoder call, so the contract of the iteration can name the cause */
struct verif_load_ghost {
  unsigned calls;
  int status;
  size_t read;
  size_t size_before; /* stack depth before the call */
};
extern struct verif_load_ghost g_l;

#define LOAD_PARAMS                                                                                      \
  cbor_data source, size_t source_size, struct cbor_load_result *result, struct _cbor_stack *verif_stack, \
      struct _cbor_decoder_context *verif_context, struct cbor_callbacks *verif_callbacks

#define LOAD_OBJECTS                                                                                   \
  (__CPROVER_rw_ok(result, sizeof(*result)) && STACK_OK(verif_stack) &&                                \
   __CPROVER_rw_ok(verif_context, sizeof(*verif_context)) && verif_context->stack == verif_stack &&    \
   source_size >= 1 && source_size <= VERIF_MAXOBJ && __CPROVER_r_ok(source, source_size))
/* the loop invariant of cbor_load's main loop */
#define LOAD_INV                                                                                       \
  (result->read <= source_size && result->error.code == CBOR_ERR_NONE && !verif_context->creation_failed && \
   !verif_context->syntax_error && verif_stack->size <= CBOR_MAX_STACK_SIZE)

/* K'' = K' (contracts/load.h, assumed) + the ghost record of what it returned */
struct cbor_decoder_result cbor_stream_decode__iter(cbor_data source, size_t source_size,
                                                    const struct cbor_callbacks *callbacks, void *context)
__CPROVER_requires(source_size >= 1 && __CPROVER_r_ok(source, source_size))
__CPROVER_requires(__CPROVER_rw_ok(LCTX(context), sizeof(struct _cbor_decoder_context)) && STACK_OK(LCTX(context)->stack) &&
                   !LCTX(context)->creation_failed && !LCTX(context)->syntax_error &&
                   LCTX(context)->stack->size <= CBOR_MAX_STACK_SIZE && ALLOC_MODEL_BOUND)
__CPROVER_assigns(ALLOC_GHOSTS, g_b, g_d, g_l, LCTX(context)->creation_failed, LCTX(context)->syntax_error, LCTX(context)->root,
                  *LCTX(context)->stack)
__CPROVER_ensures(RET.status == CBOR_DECODER_FINISHED || RET.status == CBOR_DECODER_NEDATA || RET.status == CBOR_DECODER_ERROR)
__CPROVER_ensures(RET.status == CBOR_DECODER_FINISHED ==> (RET.read >= 1 && RET.read <= source_size))
__CPROVER_ensures(RET.status != CBOR_DECODER_FINISHED ==>
                  (RET.read == 0 && !LCTX(context)->creation_failed && !LCTX(context)->syntax_error &&
                   LCTX(context)->stack->size == OLD(LCTX(context)->stack->size)))
__CPROVER_ensures(LCTX(context)->stack->size <= CBOR_MAX_STACK_SIZE)
__CPROVER_ensures(g_l.calls == OLD(g_l.calls) + 1 && g_l.status == (int)RET.status && g_l.read == RET.read &&
                  g_l.size_before == OLD(LCTX(context)->stack->size));

/* prologue: empty input is answered at once with every field filled in; otherwise the loop is entered with LOAD_INV true,
 * an empty stack and nothing read */
cbor_item_t *cbor_load__prologue(cbor_data source, size_t source_size, struct cbor_load_result *result,
                                 struct _cbor_stack *verif_out_stack, struct _cbor_decoder_context *verif_out_context,
                                 bool *verif_entered)
__CPROVER_requires(__CPROVER_w_ok(result, sizeof(*result)) && __CPROVER_w_ok(verif_out_stack, sizeof(*verif_out_stack)) &&
                   __CPROVER_w_ok(verif_out_context, sizeof(*verif_out_context)) && __CPROVER_w_ok(verif_entered, sizeof(bool)))
__CPROVER_assigns(*result, *verif_out_stack, *verif_out_context, *verif_entered)
__CPROVER_ensures(RET == NULL)
__CPROVER_ensures(source_size == 0 ==> (!*verif_entered && result->error.code == CBOR_ERR_NODATA && result->read == 0 &&
                                        result->error.position == 0))
__CPROVER_ensures(source_size >= 1 ==> (*verif_entered && result->read == 0 && result->error.code == CBOR_ERR_NONE &&
                                        verif_out_stack->size == 0 && verif_out_stack->top == NULL &&
                                        verif_out_context->stack == verif_out_stack &&
                                        !verif_out_context->creation_failed && !verif_out_context->syntax_error));

bool cbor_load__iteration(LOAD_PARAMS)
__CPROVER_requires(ALLOC_MODEL_BOUND && LOAD_OBJECTS && LOAD_INV && g_l.calls == 0)
__CPROVER_assigns(ALLOC_GHOSTS, g_b, g_d, g_l, result->read, result->error, verif_context->creation_failed,
                  verif_context->syntax_error, verif_context->root, *verif_stack)
/* nothing left to read while an item is still open: NOTENOUGHDATA at the end of the input, decoder not called */
__CPROVER_ensures(OLD(result->read) == source_size ==>
                  (RET && g_l.calls == 0 && result->error.code == CBOR_ERR_NOTENOUGHDATA && result->read == source_size))
/* otherwise exactly one decoder call, on exactly the unread remainder */
__CPROVER_ensures(OLD(result->read) < source_size ==> g_l.calls == 1)
/* the cause decides the outcome, in this order: decoder status, then creation_failed, then syntax_error */
__CPROVER_ensures((g_l.calls == 1 && g_l.status == CBOR_DECODER_NEDATA) ==>
                  (RET && result->error.code == CBOR_ERR_NOTENOUGHDATA && result->read == OLD(result->read)))
__CPROVER_ensures((g_l.calls == 1 && g_l.status == CBOR_DECODER_ERROR) ==>
                  (RET && result->error.code == CBOR_ERR_MALFORMATED && result->read == OLD(result->read)))
__CPROVER_ensures((g_l.calls == 1 && g_l.status == CBOR_DECODER_FINISHED) ==> result->read == OLD(result->read) + g_l.read)
__CPROVER_ensures((g_l.calls == 1 && g_l.status == CBOR_DECODER_FINISHED && verif_context->creation_failed) ==>
                  (RET && result->error.code == CBOR_ERR_MEMERROR))
__CPROVER_ensures((g_l.calls == 1 && g_l.status == CBOR_DECODER_FINISHED && !verif_context->creation_failed &&
                   verif_context->syntax_error) ==> (RET && result->error.code == CBOR_ERR_SYNTAXERROR))
__CPROVER_ensures((g_l.calls == 1 && g_l.status == CBOR_DECODER_FINISHED && !verif_context->creation_failed &&
                   !verif_context->syntax_error) ==> !RET)
/* falling through: the invariant again, and progress (termination of the loop) */
__CPROVER_ensures(!RET ==> (LOAD_INV && result->read > OLD(result->read)))
/* leaving through the error label: a definite code, never NONE / NODATA; consumed bytes stay inside the input;
 * a failed head does not change the depth of the stack */
__CPROVER_ensures(RET ==> (result->error.code != CBOR_ERR_NONE && result->error.code != CBOR_ERR_NODATA &&
                           result->read <= source_size && verif_stack->size <= CBOR_MAX_STACK_SIZE))
__CPROVER_ensures((RET && (result->error.code == CBOR_ERR_NOTENOUGHDATA || result->error.code == CBOR_ERR_MALFORMATED)) ==>
                  verif_stack->size == OLD(verif_stack->size));

cbor_item_t *cbor_load__exit(LOAD_PARAMS)
__CPROVER_requires(LOAD_OBJECTS && LOAD_INV && verif_stack->size == 0)
__CPROVER_assigns()
__CPROVER_ensures(RET == verif_context->root);

void cbor_load__error_entry(LOAD_PARAMS)
__CPROVER_requires(LOAD_OBJECTS && result->read <= source_size)
__CPROVER_assigns(result->error.position)
__CPROVER_ensures(result->error.position == result->read);

/* one frame: its item released once (hereditary decref, A1), the frame freed, nothing else touched */
void cbor_load__cleanup_iteration(LOAD_PARAMS)
__CPROVER_requires(ALLOC_MODEL_BOUND && LOAD_OBJECTS && verif_stack->size >= 1 && REC_OK(verif_stack->top) &&
                   HEAP_BLOCK(verif_stack->top) && ITEM_RW(verif_stack->top->item) && HEAP_BLOCK(verif_stack->top->item) &&
                   verif_stack->top->item->refcount >= 1 && g_d.calls == 0)
__CPROVER_assigns(ALLOC_GHOSTS, g_d, *verif_stack, verif_stack->top->item, verif_stack->top->item->refcount)
__CPROVER_frees(verif_stack->top, verif_stack->top->item)
__CPROVER_ensures(verif_stack->size == OLD(verif_stack->size) - 1 && verif_stack->top == OLD(verif_stack->top->lower))
__CPROVER_ensures(g_d.calls == 1 && g_d.last == &(OLD(verif_stack->top)->item))
__CPROVER_ensures(g_malloc_calls == OLD(g_malloc_calls) && g_realloc_calls == OLD(g_realloc_calls) &&
                  g_free_calls >= OLD(g_free_calls) + 1);

cbor_item_t *cbor_load__error_exit(LOAD_PARAMS)
__CPROVER_assigns()
__CPROVER_ensures(RET == NULL);

/* decref as the clean-up loop sees it: hereditary (A1) + call record */
void cbor_decref__cleanup(cbor_item_t **item_ref)
__CPROVER_requires(ALLOC_MODEL_BOUND && __CPROVER_rw_ok(item_ref, sizeof(cbor_item_t *)) && ITEM_RW(*item_ref) &&
                   (*item_ref)->refcount >= 1 && HEAP_BLOCK(*item_ref))
__CPROVER_assigns(ALLOC_GHOSTS, g_d, *item_ref, (*item_ref)->refcount)
__CPROVER_frees((*item_ref)->refcount == 1 : *item_ref)
__CPROVER_ensures(g_d.calls == OLD(g_d.calls) + 1 && g_d.last == item_ref)
__CPROVER_ensures(OLD((*item_ref)->refcount) == 1 ==> *item_ref == NULL)
__CPROVER_ensures(g_malloc_calls == OLD(g_malloc_calls) && g_realloc_calls == OLD(g_realloc_calls) &&
                  g_free_calls >= OLD(g_free_calls) && g_refused == OLD(g_refused) &&
                  /* model bound: the counters never reach 2^63 (as in ALLOC_MODEL_BOUND) */
                  g_free_calls < SIZE_MAX / 2 && g_live <= OLD(g_live));
#endif
