/* Native replay for C18 on tagged items: the tree tag(uint) is built inside an arena that is then
 * write-protected; cbor_serialized_size and cbor_serialize must not store into it, not even transiently. */
#include <signal.h>
#include <stdio.h>
#include <stdlib.h>
#include <string.h>
#include <sys/mman.h>
#include <unistd.h>
#include "cbor.h"
static unsigned char *arena; static size_t used, cap = 1 << 16;
static void *a_malloc(size_t n) { n = (n + 15) & ~(size_t)15; if (used + n > cap) return NULL; void *p = arena + used; used += n; return p; }
static void *a_realloc(void *p, size_t n) { void *q = a_malloc(n); if (q && p) memcpy(q, p, n); return q; }
static void a_free(void *p) { (void)p; }
static const char *phase = "?";
static void on_segv(int sig) {
  (void)sig;
  char msg[160];
  int n = snprintf(msg, sizeof msg, "VIOLATED: store into the write-protected item tree during %s\n", phase);
  if (write(1, msg, n) < 0) {}
  _exit(3);
}
int main(void) {
  arena = mmap(NULL, cap, PROT_READ | PROT_WRITE, MAP_PRIVATE | MAP_ANONYMOUS, -1, 0);
  if (arena == MAP_FAILED) return 2;
  cbor_set_allocs(a_malloc, a_realloc, a_free);
  cbor_item_t *child = cbor_build_uint8(7);
  cbor_item_t *tag = cbor_build_tag(42, child);
  cbor_decref(&child);
  signal(SIGSEGV, on_segv);
  mprotect(arena, cap, PROT_READ);
  unsigned char out[16];
  phase = "cbor_serialized_size";
  size_t sz = cbor_serialized_size(tag);
  phase = "cbor_serialize";
  size_t w = cbor_serialize(tag, out, sizeof out);
  printf("size=%zu written=%zu bytes=%02x %02x %02x\n", sz, w, out[0], out[1], out[2]);
  return (sz == 3 && w == 3 && out[0] == 0xD8 && out[1] == 42 && out[2] == 7) ? 0 : 3;
}
