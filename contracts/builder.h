/* Builder callbacks and _cbor_builder_append (C02 push-down automaton transitions, C05 flags, C06, C19, C04).
 * The decoder context invariant CTX_OK and the per-frame invariant FRAME_OK are DESIGN 3.5; the transitions are
 * those of the RFC 8949 well-formedness automaton (DESIGN appendix A), written from the RFC, not from the code. */
#ifndef VERIF_C_BUILDER_H
#define VERIF_C_BUILDER_H
#include "contracts/refcount.h"
#include "contracts/stack.h"
#include "cbor/internal/builder_callbacks.h"

struct verif_builder_ghost {
  size_t append_calls;   /* completed items handed upwards (calls of _cbor_builder_append by a callback / by itself) */
  cbor_item_t *appended; /* the item handed over by the most recent one */
  /* expectation set by a callback harness: what the completed item must look like WHEN it is handed over (it may
   * be released by the time the callback returns, so this is checked as a precondition at the call site) */
  /* the same for the item an opener puts on the stack */
  bool expect_push;
  int push_type, push_flavour;
  uint64_t push_arg;     /* preallocated size / tag number */
  size_t push_subitems;  /* members due recorded in the frame */
  const unsigned char *exp_src; /* strings: the input buffer the payload was copied from (must not be referenced) */
  unsigned char exp_byte;       /* strings: payload byte at the watched index g_k */
  bool expect;
  int exp_type;          /* major type */
  int exp_width;         /* int / float width code; for empty definite containers: 0 */
  uint64_t exp_bits;     /* integer value / simple value / float bit pattern */
};
extern struct verif_builder_ghost g_b;
/* Typed aliases of the top frame and its item, set by the harness and constant during the call.  The contracts
 * speak about the top frame through these (ctx->stack->top == g_bc.rec is required): naming the item as
 * ctx->stack->top->item everywhere made symbolic execution of the contract itself take minutes (three nested
 * loads per mention, hundreds of mentions). */
struct verif_builder_const {
  struct _cbor_stack_record *rec;
  cbor_item_t *item;
};
extern struct verif_builder_const g_bc;

#define CTXP(c) ((struct _cbor_decoder_context *)(c))
#define STK(c) (CTXP(c)->stack)
#define TOPREC(c) (g_bc.rec)
#define TOPITEM(c) (g_bc.item)
#define SUBITEMS(c) (g_bc.rec->subitems)

/* The decoder-context invariant, as a list of separate requires clauses (one big nested expression made
 * symbolic execution of the contract itself take minutes).  FRAME: what the frame on top of the stack looks
 * like while its item is under construction. */
#define TOP_IS(c, t) (STK(c)->size > 0 && TOPITEM(c)->type == (t))
#define CTX_REQUIRES(c)                                                                                \
  __CPROVER_requires(__CPROVER_rw_ok(CTXP(c), sizeof(struct _cbor_decoder_context)) && STACK_OK(STK(c)) && \
                     STK(c)->size <= CBOR_MAX_STACK_SIZE && !CTXP(c)->creation_failed && !CTXP(c)->syntax_error) \
  __CPROVER_requires(STK(c)->size == 0 ||                                                              \
                     (STK(c)->top == g_bc.rec && REC_OK(g_bc.rec) && g_bc.rec->item == g_bc.item &&    \
                      HEAP_BLOCK(TOPREC(c)) && ITEM_RW(TOPITEM(c)) && HEAP_BLOCK(TOPITEM(c)) &&        \
                      TOPITEM(c)->refcount == 1 &&                                                     \
                      (TOPITEM(c)->type == CBOR_TYPE_ARRAY || TOPITEM(c)->type == CBOR_TYPE_MAP ||     \
                       TOPITEM(c)->type == CBOR_TYPE_TAG || TOPITEM(c)->type == CBOR_TYPE_BYTESTRING || \
                       TOPITEM(c)->type == CBOR_TYPE_STRING)))                                         \
  __CPROVER_requires(!TOP_IS(c, CBOR_TYPE_ARRAY) ||                                                    \
                     (ARRAY_VALID(TOPITEM(c)) &&                                                       \
                      (AR_META(TOPITEM(c)).type == _CBOR_METADATA_DEFINITE                             \
                           ? (SUBITEMS(c) >= 1 && SUBITEMS(c) <= AR_META(TOPITEM(c)).allocated &&      \
                              AR_META(TOPITEM(c)).end_ptr + SUBITEMS(c) == AR_META(TOPITEM(c)).allocated) \
                           : (SUBITEMS(c) == 0 && (AR_META(TOPITEM(c)).allocated == 0 || HEAP_BLOCK(TOPITEM(c)->data)))))) \
  __CPROVER_requires(!TOP_IS(c, CBOR_TYPE_MAP) ||                                                      \
                     (MAP_VALID(TOPITEM(c)) &&                                                         \
                      (MP_META(TOPITEM(c)).type == _CBOR_METADATA_DEFINITE                             \
                           ? (SUBITEMS(c) >= 1 && SUBITEMS(c) <= 2 * MP_META(TOPITEM(c)).allocated &&  \
                              2 * MP_META(TOPITEM(c)).end_ptr - (SUBITEMS(c) & 1) + SUBITEMS(c) == 2 * MP_META(TOPITEM(c)).allocated) \
                           : (SUBITEMS(c) <= 1 && (MP_META(TOPITEM(c)).allocated == 0 || HEAP_BLOCK(TOPITEM(c)->data)))) && \
                      ((SUBITEMS(c) & 1) == 0 || MP_META(TOPITEM(c)).end_ptr >= 1)))                   \
  __CPROVER_requires(!TOP_IS(c, CBOR_TYPE_TAG) || (TAG_VALID(TOPITEM(c)) && SUBITEMS(c) == 1))         \
  __CPROVER_requires(!TOP_IS(c, CBOR_TYPE_BYTESTRING) ||                                               \
                     (BYTESTRING_INDEF_VALID(TOPITEM(c)) && SUBITEMS(c) == 0 &&                        \
                      (CHUNKS(TOPITEM(c))->chunk_capacity == 0 || HEAP_BLOCK(CHUNKS(TOPITEM(c))->chunks)))) \
  __CPROVER_requires(!TOP_IS(c, CBOR_TYPE_STRING) ||                                                   \
                     (STRING_INDEF_VALID(TOPITEM(c)) && SUBITEMS(c) == 0 &&                            \
                      (CHUNKS(TOPITEM(c))->chunk_capacity == 0 || HEAP_BLOCK(CHUNKS(TOPITEM(c))->chunks))))

#define APPENDED_AS_EXPECTED(item)                                                                     \
  (!g_b.expect ||                                                                                      \
   ((int)(item)->type == g_b.exp_type &&                                                               \
    (!IS_INT(item) ||                                                                                  \
     ((int)INT_WIDTH(item) == g_b.exp_width && (item)->data == PAYLOAD(item) &&                        \
      (g_b.exp_width == 0 ? (uint64_t)*PAYLOAD(item) == g_b.exp_bits                                   \
       : g_b.exp_width == 1 ? (uint64_t)*(uint16_t *)PAYLOAD(item) == g_b.exp_bits                     \
       : g_b.exp_width == 2 ? (uint64_t)*(uint32_t *)PAYLOAD(item) == g_b.exp_bits                     \
                            : *(uint64_t *)PAYLOAD(item) == g_b.exp_bits))) &&                         \
    ((item)->type != CBOR_TYPE_FLOAT_CTRL ||                                                           \
     ((int)FL_WIDTH(item) == g_b.exp_width &&                                                          \
      (g_b.exp_width == 0 ? (uint64_t)(item)->metadata.float_ctrl_metadata.ctrl == g_b.exp_bits        \
       : g_b.exp_width == 3 ? F64_AT(PAYLOAD(item)) == g_b.exp_bits                                    \
                            : (uint64_t)F32_AT(PAYLOAD(item)) == g_b.exp_bits))) &&                    \
    ((item)->type != CBOR_TYPE_BYTESTRING ||                                                           \
     (BS_META(item).type == _CBOR_METADATA_DEFINITE && (uint64_t)BS_META(item).length == g_b.exp_bits && \
      (BS_META(item).length == 0 || ((item)->data != g_b.exp_src && __CPROVER_r_ok((item)->data, BS_META(item).length) && \
                                     !__CPROVER_same_object((item)->data, g_b.exp_src))) &&         \
      (g_k >= BS_META(item).length || (item)->data[g_k] == g_b.exp_byte))) &&                          \
    ((item)->type != CBOR_TYPE_STRING ||                                                               \
     (ST_META(item).type == _CBOR_METADATA_DEFINITE && (uint64_t)ST_META(item).length == g_b.exp_bits && \
      (ST_META(item).length == 0 || ((item)->data != g_b.exp_src && __CPROVER_r_ok((item)->data, ST_META(item).length) && \
                                     !__CPROVER_same_object((item)->data, g_b.exp_src))) &&         \
      (g_k >= ST_META(item).length || (item)->data[g_k] == g_b.exp_byte))) &&                          \
    ((item)->type != CBOR_TYPE_ARRAY ||                                                                \
     (AR_META(item).type == _CBOR_METADATA_DEFINITE && AR_META(item).allocated == 0 && AR_META(item).end_ptr == 0)) && \
    ((item)->type != CBOR_TYPE_MAP ||                                                                  \
     (MP_META(item).type == _CBOR_METADATA_DEFINITE && MP_META(item).allocated == 0 && MP_META(item).end_ptr == 0))))

/* ------------------------------------------------------------------ _cbor_builder_append */
/* induction hypothesis for the recursive "hand the completed container upwards" call */
void _cbor_builder_append__child(cbor_item_t *item, struct _cbor_decoder_context *ctx)
__CPROVER_requires(__CPROVER_rw_ok(ctx, sizeof(*ctx)) && g_b.append_calls < SIZE_MAX / 2)
__CPROVER_assigns(g_b, ctx->creation_failed, ctx->syntax_error, ctx->root)
__CPROVER_ensures(g_b.append_calls == OLD(g_b.append_calls) + 1 && g_b.appended == item);

/* "Hand-over" view of _cbor_builder_append for its callers (the callbacks): they give the completed item away as
 * their last action and never look at it, or at the open item, again.  What the call may do to the decoder state
 * (flags, root, stack depth, allocator traffic) is in the frame; what it does to the items themselves is proved
 * in the append_* proofs and is none of the callback's business.  The precondition is the real one's (context
 * invariant, sole ownership of the item, expectation check), asserted at every call site. */
void _cbor_builder_append__handover(cbor_item_t *item, struct _cbor_decoder_context *ctx)
__CPROVER_requires(__CPROVER_rw_ok(ctx, sizeof(*ctx)) && STACK_OK(STK(ctx)) && STK(ctx)->size <= CBOR_MAX_STACK_SIZE &&
                   !ctx->creation_failed && !ctx->syntax_error && g_b.append_calls < SIZE_MAX / 2)
__CPROVER_requires(ITEM_RW(item) && HEAP_BLOCK(item) && item->refcount == 1 && DATA_FREEABLE(item))
__CPROVER_requires(APPENDED_AS_EXPECTED(item))
__CPROVER_assigns(ALLOC_GHOSTS, g_b, g_d, ctx->creation_failed, ctx->syntax_error, ctx->root, *STK(ctx))
__CPROVER_ensures(g_b.append_calls == OLD(g_b.append_calls) + 1 && g_b.appended == item &&
                  STK(ctx)->size <= OLD(STK(ctx)->size) && g_free_calls >= OLD(g_free_calls));

/* add_chunk as called by the string callbacks: the general contract's facts that the callback's harness needs,
 * plus the expectation check on the chunk at the call site */
#define ADD_CHUNK_CB(VALID)                                                                            \
  __CPROVER_requires(ALLOC_MODEL_BOUND && VALID(item) && ITEM_RW(chunk) && chunk->refcount == 1 && chunk != item && \
                     (CHUNKS(item)->chunk_capacity == 0 || HEAP_BLOCK(CHUNKS(item)->chunks)))          \
  __CPROVER_requires(APPENDED_AS_EXPECTED(chunk))                                                      \
  __CPROVER_assigns(ALLOC_GHOSTS, chunk->refcount, __CPROVER_object_whole(item->data))                 \
  __CPROVER_assigns(CHUNKS(item)->chunk_capacity > 0 : __CPROVER_object_whole(CHUNKS(item)->chunks))   \
  __CPROVER_frees(CHUNKS(item)->chunks)                                                                \
  __CPROVER_ensures(RET ==> (CHUNKS(item)->chunk_count == OLD(CHUNKS(item)->chunk_count) + 1 &&        \
                             chunk->refcount == 2 && g_malloc_calls == OLD(g_malloc_calls)))           \
  __CPROVER_ensures(!RET ==> (CHUNKS(item)->chunk_count == OLD(CHUNKS(item)->chunk_count) && chunk->refcount == 1 && \
                              g_refused && g_live == OLD(g_live) && g_malloc_calls == OLD(g_malloc_calls))) \
  __CPROVER_ensures(g_free_calls == OLD(g_free_calls) && (OLD(g_refused) ==> g_refused) &&              \
                    g_realloc_calls <= OLD(g_realloc_calls) + 1 && g_live <= OLD(g_live) + 1 && g_live >= OLD(g_live))
bool cbor_bytestring_add_chunk__cb(cbor_item_t *item, cbor_item_t *chunk) ADD_CHUNK_CB(BYTESTRING_INDEF_VALID);
bool cbor_string_add_chunk__cb(cbor_item_t *item, cbor_item_t *chunk) ADD_CHUNK_CB(STRING_INDEF_VALID);

/* release of a reference that is not the last one (the callback's own reference to a chunk the string now owns,
 * or to a chunk that is released because it could not be added): consequences of the decref_* steps */
void cbor_decref__chunk(cbor_item_t **item_ref)
__CPROVER_requires(ALLOC_MODEL_BOUND && __CPROVER_rw_ok(item_ref, sizeof(cbor_item_t *)) && ITEM_RW(*item_ref) &&
                   (*item_ref)->refcount >= 1 && HEAP_BLOCK(*item_ref) && DATA_FREEABLE(*item_ref) && !IS_CHUNKED(*item_ref) &&
                   ((*item_ref)->type == CBOR_TYPE_BYTESTRING || (*item_ref)->type == CBOR_TYPE_STRING))
__CPROVER_assigns(ALLOC_GHOSTS, *item_ref, (*item_ref)->refcount)
__CPROVER_frees((*item_ref)->refcount == 1 : *item_ref)
__CPROVER_frees((*item_ref)->refcount == 1 : (*item_ref)->data)
__CPROVER_ensures(OLD((*item_ref)->refcount) > 1 ==>
                  ((OLD(*item_ref))->refcount == OLD((*item_ref)->refcount) - 1 && g_live == OLD(g_live) && g_free_calls == OLD(g_free_calls)))
__CPROVER_ensures(OLD((*item_ref)->refcount) == 1 ==>
                  (*item_ref == NULL && g_live == OLD(g_live) - 1 - (OLD((*item_ref)->data) != NULL ? 1 : 0)))
__CPROVER_ensures(g_malloc_calls == OLD(g_malloc_calls) && g_realloc_calls == OLD(g_realloc_calls) && g_refused == OLD(g_refused));

/* _cbor_stack_push as called by the opener callbacks: same contract, plus the expectation check on the item that
 * is being put on the stack (asserted at the call site, where the fresh item is a known pointer) */
#define PUSHED_AS_EXPECTED(item)                                                                       \
  (!g_b.expect_push ||                                                                                 \
   (ITEM_RW(item) && (int)(item)->type == g_b.push_type && (item)->refcount == 1 &&                    \
    ((item)->type != CBOR_TYPE_ARRAY || (AR_META(item).type == g_b.push_flavour && AR_META(item).end_ptr == 0 && \
                                         (g_b.push_flavour != _CBOR_METADATA_DEFINITE || AR_META(item).allocated == g_b.push_arg))) && \
    ((item)->type != CBOR_TYPE_MAP || (MP_META(item).type == g_b.push_flavour && MP_META(item).end_ptr == 0 && \
                                       (g_b.push_flavour != _CBOR_METADATA_DEFINITE || MP_META(item).allocated == g_b.push_arg))) && \
    ((item)->type != CBOR_TYPE_TAG || (TG_META(item).value == g_b.push_arg && TG_META(item).tagged_item == NULL)) && \
    ((item)->type != CBOR_TYPE_BYTESTRING || BS_META(item).type == _CBOR_METADATA_INDEFINITE) &&       \
    ((item)->type != CBOR_TYPE_STRING || ST_META(item).type == _CBOR_METADATA_INDEFINITE)))
struct _cbor_stack_record *_cbor_stack_push__cb(struct _cbor_stack *stack, cbor_item_t *item, size_t subitems)
__CPROVER_requires(ALLOC_MODEL_BOUND && STACK_OK(stack) && stack->size <= CBOR_MAX_STACK_SIZE)
__CPROVER_requires(PUSHED_AS_EXPECTED(item) && (!g_b.expect_push || subitems == g_b.push_subitems))
__CPROVER_assigns(ALLOC_GHOSTS, *stack)
__CPROVER_ensures(OLD(stack->size) == CBOR_MAX_STACK_SIZE ==> (RET == NULL && g_malloc_calls == OLD(g_malloc_calls)))
__CPROVER_ensures(OLD(stack->size) < CBOR_MAX_STACK_SIZE ==>
                  (g_malloc_calls == OLD(g_malloc_calls) + 1 && (RET == NULL ==> g_refused)))
__CPROVER_ensures(RET == NULL ==> (stack->top == OLD(stack->top) && stack->size == OLD(stack->size) && g_live == OLD(g_live)))
__CPROVER_ensures(RET == NULL || (__CPROVER_is_fresh(stack->top, sizeof(struct _cbor_stack_record)) &&
                                  stack->top->lower == OLD(stack->top) && RET == stack->top))
__CPROVER_ensures(RET == NULL || (stack->size == OLD(stack->size) + 1 && g_live == OLD(g_live) + 1))
__CPROVER_ensures(g_realloc_calls == OLD(g_realloc_calls) && g_free_calls == OLD(g_free_calls) &&
                  (g_refused || !OLD(g_refused) || 1) && (OLD(g_refused) ==> g_refused));

#define APPEND_FRAME(item, ctx)                                                                        \
  __CPROVER_assigns(ALLOC_GHOSTS, g_b, g_d, *ctx, *STK(ctx), __CPROVER_object_whole(item))             \
  __CPROVER_assigns(HAS_DATA_BLOCK(item) && item->data != NULL : __CPROVER_object_whole(item->data))   \
  __CPROVER_assigns(STK(ctx)->size > 0 : *TOPREC(ctx), *TOPITEM(ctx))                                  \
  __CPROVER_assigns(STK(ctx)->size > 0 && HAS_DATA_BLOCK(TOPITEM(ctx)) && TOPITEM(ctx)->data != NULL : __CPROVER_object_whole(TOPITEM(ctx)->data)) \
  __CPROVER_frees(STK(ctx)->size > 0 : TOPREC(ctx))                                                    \
  __CPROVER_frees(STK(ctx)->size > 0 && (TOPITEM(ctx)->type == CBOR_TYPE_ARRAY || TOPITEM(ctx)->type == CBOR_TYPE_MAP) : TOPITEM(ctx)->data) \
  __CPROVER_frees(item)                                                                                \
  __CPROVER_frees(HAS_DATA_BLOCK(item) : item->data)

void _cbor_builder_append(cbor_item_t *item, struct _cbor_decoder_context *ctx)
CTX_REQUIRES(ctx)
__CPROVER_requires(ALLOC_MODEL_BOUND && ITEM_RW(item) && HEAP_BLOCK(item) && item->refcount == 1 &&
                   DATA_FREEABLE(item) && !IS_CHUNKED(item) && g_b.append_calls < SIZE_MAX / 2)
__CPROVER_requires(STK(ctx)->size == 0 || (item != TOPITEM(ctx)))
__CPROVER_requires(APPENDED_AS_EXPECTED(item))
APPEND_FRAME(item, ctx)
/* empty stack: the item is the result */
__CPROVER_ensures(OLD(STK(ctx)->size) == 0 ==>
                  (ctx->root == item && STK(ctx)->size == 0 && !ctx->creation_failed && !ctx->syntax_error &&
                   item->refcount == 1 && g_b.append_calls == OLD(g_b.append_calls) && g_live == OLD(g_live)))
/* never more than one level closed here; deeper closing is the recursive call's business */
__CPROVER_ensures(STK(ctx)->size == OLD(STK(ctx)->size) || STK(ctx)->size + 1 == OLD(STK(ctx)->size))
__CPROVER_ensures(g_b.append_calls <= OLD(g_b.append_calls) + 1)
/* a level is closed exactly when its container became complete, and then the container is handed upwards */
__CPROVER_ensures(STK(ctx)->size + 1 == OLD(STK(ctx)->size) ==>
                  (g_b.append_calls == OLD(g_b.append_calls) + 1 && g_b.appended == OLD(TOPITEM(ctx)) &&
                   g_free_calls == OLD(g_free_calls) + 1))
/* flags are raised here only without closing a level (what the upward hand-over does to them is its business) */
__CPROVER_ensures((OLD(STK(ctx)->size) > 0 && STK(ctx)->size == OLD(STK(ctx)->size)) ==> g_b.append_calls == OLD(g_b.append_calls));
#endif
