/* Contract of cbor_stream_decode against the recording callback table (C08, C01, C09, C10, C13, C14).
 * Written from the property statement and RFC 8949 section 3 (spec/head.h), not from the code. */
#ifndef VERIF_C_STREAMING_H
#define VERIF_C_STREAMING_H
#include "contracts/ghost.h"
#include "cbor/callbacks.h"
#include "cbor/data.h"
#include "spec/head.h"
#include "stubs/recorder.h"

#ifdef VERIF_STREAM_CONTRACT
struct cbor_decoder_result cbor_stream_decode(cbor_data source, size_t source_size,
                                              const struct cbor_callbacks *callbacks, void *context)
/* any buffer: an object of exactly source_size bytes (so a one-byte over-read fails a pointer obligation) */
__CPROVER_requires(source_size <= VERIF_MAXOBJ)
__CPROVER_requires(__CPROVER_r_ok(source, source_size))
__CPROVER_requires(__CPROVER_r_ok(callbacks, sizeof(*callbacks)) && VERIF_REC_TABLE_IS(callbacks))
__CPROVER_requires(g_ev_count == 0 && g_ev_slot == EV_NONE)
/* stateless, allocates nothing: the frame is the recorder's ghost state only */
__CPROVER_assigns(g_ev)
/* exactly one of three outcomes */
__CPROVER_ensures(__CPROVER_return_value.status == CBOR_DECODER_FINISHED ||
                  __CPROVER_return_value.status == CBOR_DECODER_NEDATA ||
                  __CPROVER_return_value.status == CBOR_DECODER_ERROR)
/* ERROR <=> reserved or unsupported initial byte; no callback, read 0 (required 0) */
__CPROVER_ensures((__CPROVER_return_value.status == CBOR_DECODER_ERROR) ==
                  (source_size >= 1 && spec_head_invalid(source[0])))
__CPROVER_ensures(__CPROVER_return_value.status == CBOR_DECODER_ERROR ==>
                  (g_ev_count == 0 && __CPROVER_return_value.read == 0 && __CPROVER_return_value.required == 0))
/* NEDATA: no callback, read 0, buffer length < required <= full length of head and payload */
__CPROVER_ensures(__CPROVER_return_value.status == CBOR_DECODER_NEDATA ==>
                  (g_ev_count == 0 && __CPROVER_return_value.read == 0 &&
                   __CPROVER_return_value.required > source_size))
__CPROVER_ensures((__CPROVER_return_value.status == CBOR_DECODER_NEDATA && source_size == 0) ==>
                  __CPROVER_return_value.required == 1)
__CPROVER_ensures((__CPROVER_return_value.status == CBOR_DECODER_NEDATA && source_size >= 1) ==>
                  (!spec_head_invalid(source[0]) &&
                   (source_size < spec_head_len(source[0])
                        ? __CPROVER_return_value.required == spec_head_len(source[0])
                        : (spec_head_has_payload(source[0]) &&
                           __CPROVER_return_value.required >= spec_head_len(source[0]) &&
                           __CPROVER_return_value.required - spec_head_len(source[0]) <= spec_head_arg(source)))))
/* NEDATA is reported exactly when the buffer is shorter than head (+ payload) */
__CPROVER_ensures((source_size >= 1 && !spec_head_invalid(source[0]) && source_size >= spec_head_len(source[0]) &&
                   (!spec_head_has_payload(source[0]) ||
                    spec_head_arg(source) <= source_size - spec_head_len(source[0]))) ==>
                  __CPROVER_return_value.status == CBOR_DECODER_FINISHED)
/* FINISHED: exactly one callback, the one for the head at the start of the buffer, with its decoded arguments */
__CPROVER_ensures(__CPROVER_return_value.status == CBOR_DECODER_FINISHED ==>
                  (source_size >= 1 && g_ev_count == 1 && g_ev_ctx == context &&
                   __CPROVER_return_value.required == 0 &&
                   g_ev_slot == (int)spec_head_event(source[0]) &&
                   __CPROVER_return_value.read <= source_size &&
                   source_size >= spec_head_len(source[0]) &&
                   /* no wrap-around: the payload really fits behind the head */
                   (!spec_head_has_payload(source[0]) || spec_head_arg(source) <= source_size - spec_head_len(source[0])) &&
                   __CPROVER_return_value.read ==
                       spec_head_len(source[0]) + (spec_head_has_payload(source[0]) ? spec_head_arg(source) : 0)))
__CPROVER_ensures((__CPROVER_return_value.status == CBOR_DECODER_FINISHED &&
                   (g_ev_slot <= EV_NEGINT8 || g_ev_slot == EV_BSTR || g_ev_slot == EV_TSTR ||
                    g_ev_slot == EV_ARRAY || g_ev_slot == EV_MAP || g_ev_slot == EV_TAG)) ==>
                  g_ev_arg == spec_head_arg(source))
/* payload pointer lies inside the buffer, right after the head */
__CPROVER_ensures((__CPROVER_return_value.status == CBOR_DECODER_FINISHED &&
                   (g_ev_slot == EV_BSTR || g_ev_slot == EV_TSTR)) ==>
                  (g_ev_ptr == source + spec_head_len(source[0]) &&
                   g_ev_arg <= source_size - spec_head_len(source[0])))
__CPROVER_ensures((__CPROVER_return_value.status == CBOR_DECODER_FINISHED && g_ev_slot == EV_BOOL) ==>
                  g_ev_bool == (source[0] == 0xF5))
/* floats: exact bits (NaN -> NaN for halves, which are widened to single) */
__CPROVER_ensures((__CPROVER_return_value.status == CBOR_DECODER_FINISHED && g_ev_slot == EV_FLOAT4) ==>
                  g_ev_fbits == (uint32_t)spec_head_arg(source))
__CPROVER_ensures((__CPROVER_return_value.status == CBOR_DECODER_FINISHED && g_ev_slot == EV_FLOAT8) ==>
                  g_ev_dbits == spec_head_arg(source))
__CPROVER_ensures((__CPROVER_return_value.status == CBOR_DECODER_FINISHED && g_ev_slot == EV_FLOAT2) ==>
                  (spec_f32_is_nan(spec_half_to_float_bits((uint16_t)spec_head_arg(source)))
                       ? spec_f32_is_nan(g_ev_fbits)
                       : g_ev_fbits == spec_half_to_float_bits((uint16_t)spec_head_arg(source))));
#endif
#endif
