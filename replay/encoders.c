/* Native replay for one encoder.  Compiled with the proof's -DENC_FN/-DENC_ARGT/-DENC_NOVAL/-DENC_OFFSET and
 * -DSPEC_MODE (0 = single byte SPEC_BYTE, 1 = 8-bit variant, 2/4/8 = fixed argument bytes, 9 = shortest,
 * 16/32/64 = half/single/double) -DSPEC_MAJOR.  argv: in_size=.. in_off=.. in_value=.. in_major=..
 * The buffer is an exactly-sized heap block (ASan red zones) pre-filled with a sentinel. */
#include <stdio.h>
#include <stdlib.h>
#include <string.h>
#include "cbor.h"
#include "cbor/internal/encoders.h"
#include "spec/head.h"

static unsigned long long arg(int argc, char **argv, const char *k, unsigned long long d) {
  size_t n = strlen(k);
  for (int i = 1; i < argc; i++)
    if (!strncmp(argv[i], k, n) && argv[i][n] == '=') return strtoull(argv[i] + n + 1, 0, 0);
  return d;
}
static double argd(int argc, char **argv, const char *k) {
  size_t n = strlen(k);
  for (int i = 1; i < argc; i++)
    if (!strncmp(argv[i], k, n) && argv[i][n] == '=') return strtod(argv[i] + n + 1, 0);
  return 0;
}

int main(int argc, char **argv) {
  size_t size = arg(argc, argv, "in_size", 0), off = arg(argc, argv, "in_off", 0);
  if (size > (1u << 20)) size = 1u << 20;
  unsigned major = SPEC_MAJOR_;
#ifdef ENC_OFFSET
  major = (unsigned)arg(argc, argv, "in_major", 0) & 7;
#endif
  unsigned char *base = malloc(off + size ? off + size : 1);
  memset(base, 0xA5, off + size ? off + size : 1);
  unsigned char *buf = base + off;
#ifndef ENC_NOVAL
#if SPEC_MODE >= 16
  ENC_ARGT v = (ENC_ARGT)argd(argc, argv, "in_value");
  unsigned long long vi = 0;
#else
  unsigned long long vi = arg(argc, argv, "in_value", 0);
  ENC_ARGT v = (ENC_ARGT)vi;
  vi = (unsigned long long)v;
#endif
#else
  unsigned long long vi = 0;
#endif
  size_t r = ENC_FN(
#ifndef ENC_NOVAL
      v,
#endif
      buf, size
#ifdef ENC_OFFSET
      , (uint8_t)(major << 5)
#endif
  );
  unsigned ab;
  unsigned char exp[9];
  size_t need;
#if SPEC_MODE == 0
  need = 1; exp[0] = (unsigned char)(SPEC_BYTE);
#elif SPEC_MODE >= 16
  need = 1 + SPEC_MODE / 8; exp[0] = 0; /* float bytes are checked by the C15 replay */
#else
  ab = SPEC_MODE == 1 ? (vi <= 23 ? 0 : 1) : SPEC_MODE == 9 ? spec_shortest_argbytes(vi) : SPEC_MODE;
  need = 1 + ab;
  for (unsigned k = 0; k < need; k++) exp[k] = spec_head_byte(major, ab, vi, k);
#endif
  int bad = 0;
  printf("size=%zu off=%zu value=%llu major=%u -> returned %zu (need %zu)\n", size, off, vi, major, r, need);
  if (r != (size >= need ? need : 0)) { printf("CONTRACT VIOLATED: return value\n"); bad = 1; }
  if (size >= need) {
#if SPEC_MODE < 16
    if (memcmp(buf, exp, need)) { printf("CONTRACT VIOLATED: bytes differ from the RFC 8949 head\n"); bad = 1; }
#endif
    for (size_t i = need; i < size; i++) if (buf[i] != 0xA5) { printf("CONTRACT VIOLATED: wrote beyond the head at %zu\n", i); bad = 1; break; }
  } else {
    for (size_t i = 0; i < size; i++) if (buf[i] != 0xA5) { printf("CONTRACT VIOLATED: buffer touched on failure at %zu\n", i); bad = 1; break; }
  }
  for (size_t i = 0; i < off; i++) if (base[i] != 0xA5) { printf("CONTRACT VIOLATED: wrote before the buffer\n"); bad = 1; break; }
  free(base);
  return bad ? 3 : 0;
}
