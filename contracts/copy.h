/* cbor_copy (C11, C06): one step per node kind; children are copied by the induction-hypothesis twin
 * cbor_copy__child; the parent reaches its children through hereditary variants of the accessors (the child
 * node itself is not required to be valid memory in a step proof, DESIGN 3.2) which account for the transient
 * reference they take and give back. */
#ifndef VERIF_C_COPY_H
#define VERIF_C_COPY_H
#include "contracts/refcount.h"

struct verif_copy_ghost {
  size_t calls;       /* children handed to the twin so far */
  bool ordered;       /* each was the next child in storage order */
  size_t inc, dec;    /* transient references taken / given back on children of the source */
  cbor_item_t *kth;   /* the copy the twin returned for child number g_k */
  bool child_failed;  /* the twin reported failure (NULL) for some child */
};
extern struct verif_copy_ghost g_c;
struct verif_copy_const {
  cbor_item_t **slots; struct cbor_pair *pairs; size_t n;
  int child_type;     /* major type every child copy has (chunks), or -1 for any */
};
extern struct verif_copy_const g_cc;

#define COPY_NEXT_WAS(item)                                                                            \
  ((g_cc.slots != NULL && g_c.calls - 1 < g_cc.n && (item) == g_cc.slots[g_c.calls - 1]) ||            \
   (g_cc.pairs != NULL && g_c.calls - 1 < 2 * g_cc.n &&                                                \
    (item) == (((g_c.calls - 1) & 1) ? g_cc.pairs[(g_c.calls - 1) / 2].value : g_cc.pairs[(g_c.calls - 1) / 2].key)))

/* induction hypothesis: NULL (nothing left behind), or a fresh node with reference count one (a definite
 * string of the expected major type where the parent is a chunked string) */
/* (assumed variants require the allocator binding only: the numeric part of ALLOC_MODEL_BOUND exists to keep "+1" in
 * enforced postconditions from wrapping, and the twin hands back arbitrary counter values) */
#define ALLOC_BINDING (_cbor_malloc == v_malloc && _cbor_realloc == v_realloc && _cbor_free == v_free)
cbor_item_t *cbor_copy__child(cbor_item_t *item)
__CPROVER_requires(ALLOC_BINDING && g_c.calls < SIZE_MAX / 4)
__CPROVER_assigns(ALLOC_GHOSTS, g_c)
__CPROVER_ensures(RET == NULL || (__CPROVER_is_fresh(RET, sizeof(cbor_item_t)) && RET->refcount == 1 &&
                                  (unsigned)RET->type <= 7u && (g_cc.child_type < 0 || (int)RET->type == g_cc.child_type) &&
                                  (RET->type != CBOR_TYPE_BYTESTRING || BS_META(RET).type == _CBOR_METADATA_DEFINITE || g_cc.child_type < 0) &&
                                  (RET->type != CBOR_TYPE_STRING || ST_META(RET).type == _CBOR_METADATA_DEFINITE || g_cc.child_type < 0) &&
                                  RET->data == NULL))
/* model bound: a subtree copy leaves the call counters far below 2^63 (keeps "+1" in later contracts from wrapping) */
__CPROVER_ensures(g_malloc_calls < ((size_t)1 << 50) && g_realloc_calls < ((size_t)1 << 50) && g_free_calls < ((size_t)1 << 50) &&
                  g_live < ((size_t)1 << 50))
__CPROVER_ensures(RET == NULL ==> (g_live == OLD(g_live) && g_c.child_failed))
__CPROVER_ensures(RET != NULL ==> (g_live > OLD(g_live) && g_c.child_failed == OLD(g_c.child_failed)))
__CPROVER_ensures(g_c.calls == OLD(g_c.calls) + 1 && g_c.ordered == (OLD(g_c.ordered) && COPY_NEXT_WAS(item)) &&
                  g_c.inc == OLD(g_c.inc) && g_c.dec == OLD(g_c.dec) &&
                  g_c.kth == (OLD(g_c.calls) == g_k ? RET : OLD(g_c.kth)));

/* hereditary accessors: same result as the real ones (proved separately: cont_array_get, op_tag_item, op_move),
 * no memory requirement on the child, the reference taken / given back is counted */
cbor_item_t *cbor_array_get__hered(const cbor_item_t *item, size_t index)
__CPROVER_requires(ARRAY_VALID(item) && index < AR_META(item).end_ptr && g_c.inc < SIZE_MAX / 2)
__CPROVER_assigns(g_c)
__CPROVER_ensures(RET == AR_SLOTS(item)[index] && g_c.inc == OLD(g_c.inc) + 1 && g_c.dec == OLD(g_c.dec) &&
                  g_c.calls == OLD(g_c.calls) && g_c.ordered == OLD(g_c.ordered) && g_c.kth == OLD(g_c.kth) &&
                  g_c.child_failed == OLD(g_c.child_failed));
cbor_item_t *cbor_tag_item__hered(const cbor_item_t *tag)
__CPROVER_requires(TAG_VALID(tag) && g_c.inc < SIZE_MAX / 2)
__CPROVER_assigns(g_c)
__CPROVER_ensures(RET == TG_META(tag).tagged_item && g_c.inc == OLD(g_c.inc) + 1 && g_c.dec == OLD(g_c.dec) &&
                  g_c.calls == OLD(g_c.calls) && g_c.ordered == OLD(g_c.ordered) && g_c.kth == OLD(g_c.kth) &&
                  g_c.child_failed == OLD(g_c.child_failed));
cbor_item_t *cbor_move__hered(cbor_item_t *item)
__CPROVER_requires(g_c.dec < g_c.inc)
__CPROVER_assigns(g_c)
__CPROVER_ensures(RET == item && g_c.dec == OLD(g_c.dec) + 1 && g_c.inc == OLD(g_c.inc) &&
                  g_c.calls == OLD(g_c.calls) && g_c.ordered == OLD(g_c.ordered) && g_c.kth == OLD(g_c.kth) &&
                  g_c.child_failed == OLD(g_c.child_failed));

/* the constructor as cbor_copy's array case sees it: same contract as cbor_new_definite_array (proved:
 * cont_new_definite_array_bounded) plus a typed ghost alias of the new slot storage, because loop-contract
 * expressions cannot contain casts to typedef'd pointer types (tool limit) */
struct verif_copy_res { cbor_item_t **slots; };
extern struct verif_copy_res g_cq;
cbor_item_t *cbor_new_definite_array__copy(size_t size)
__CPROVER_requires(ALLOC_MODEL_BOUND)
__CPROVER_assigns(ALLOC_GHOSTS, g_cq)
__CPROVER_ensures(g_realloc_calls == OLD(g_realloc_calls))
__CPROVER_ensures(RET == NULL ==> (g_live == OLD(g_live) && (g_refused || size >= ((size_t)1 << 60))))
__CPROVER_ensures(RET == NULL || (__CPROVER_is_fresh(RET, sizeof(cbor_item_t)) && RET->refcount == 1 &&
                                  RET->type == CBOR_TYPE_ARRAY && AR_META(RET).type == _CBOR_METADATA_DEFINITE &&
                                  AR_META(RET).allocated == size && AR_META(RET).end_ptr == 0 &&
                                  size <= VERIF_MAXOBJ / sizeof(cbor_item_t *) &&
                                  __CPROVER_is_fresh(RET->data, size * sizeof(cbor_item_t *)) &&
                                  (g_k < size ==> AR_SLOTS(RET)[g_k] == NULL) && g_cq.slots == AR_SLOTS(RET)))
__CPROVER_ensures(RET == NULL || (g_live == OLD(g_live) + 2 && g_malloc_calls == OLD(g_malloc_calls) + 2 &&
                                  g_free_calls == OLD(g_free_calls) && g_last_req == size * sizeof(cbor_item_t *)));

cbor_item_t *cbor_build_bytestring(cbor_data handle, size_t length)
__CPROVER_requires(ALLOC_MODEL_BOUND && length <= VERIF_MAXOBJ && (length == 0 || __CPROVER_r_ok(handle, length)))
__CPROVER_requires(!g_s.valid || g_k >= length || handle[g_k] == g_s.byte)
__CPROVER_assigns(ALLOC_GHOSTS)
__CPROVER_ensures(g_realloc_calls == OLD(g_realloc_calls))
__CPROVER_ensures(RET == NULL ==> (g_live == OLD(g_live) && g_refused))
__CPROVER_ensures(RET == NULL || (__CPROVER_is_fresh(RET, sizeof(cbor_item_t)) && RET->refcount == 1 &&
                                  RET->type == CBOR_TYPE_BYTESTRING && BS_META(RET).type == _CBOR_METADATA_DEFINITE &&
                                  BS_META(RET).length == length && __CPROVER_is_fresh(RET->data, length) &&
                                  (!(g_s.valid && g_k < length) || RET->data[g_k] == g_s.byte)))
__CPROVER_ensures(RET == NULL || (g_live == OLD(g_live) + 2 && g_malloc_calls == OLD(g_malloc_calls) + 2 && g_last_req == length));

/* ASSUMED contract on the libc dependency strlen (first NUL; "no NUL before it" through the ghost index g_j): the proof of
 * cbor_build_string replaces the call by this contract, so no loop over the text remains and the length is unbounded.
 * Listed in the evidence under functions_replaced_by_contract / assumed. */
struct verif_cstr { _Bool valid; const char *base; size_t len; };
extern struct verif_cstr g_cs;
extern size_t g_j;
size_t strlen(const char *s)
__CPROVER_requires(g_cs.valid && s == g_cs.base)
__CPROVER_assigns()
__CPROVER_ensures(RET == g_cs.len);

/* cbor_build_string: the text up to (not including) the first NUL, otherwise exactly cbor_build_stringn(val, strlen(val)).
 * g_cs = ghost record of the C string set up by the harness: base, len with base[len] == 0 and base[g_j] != 0 for the
 * arbitrary g_j < len (so len IS the first NUL for every g_j). */
cbor_item_t *cbor_build_string(const char *val)
__CPROVER_requires(ALLOC_MODEL_BOUND && g_cs.valid && val == g_cs.base && g_cs.len < VERIF_MAXOBJ && __CPROVER_r_ok(val, g_cs.len + 1))
__CPROVER_requires(val[g_cs.len] == 0 && (g_j >= g_cs.len || val[g_j] != 0))
__CPROVER_requires(!g_s.valid || g_k >= g_cs.len || (unsigned char)val[g_k] == g_s.byte)
__CPROVER_assigns(ALLOC_GHOSTS, g_u)
__CPROVER_ensures(g_realloc_calls == OLD(g_realloc_calls))
__CPROVER_ensures(RET == NULL ==> (g_live == OLD(g_live) && g_refused))
__CPROVER_ensures(RET == NULL || (__CPROVER_is_fresh(RET, sizeof(cbor_item_t)) && RET->refcount == 1 &&
                                  RET->type == CBOR_TYPE_STRING && ST_META(RET).type == _CBOR_METADATA_DEFINITE &&
                                  ST_META(RET).length == g_cs.len && __CPROVER_is_fresh(RET->data, g_cs.len) &&
                                  (!(g_s.valid && g_k < g_cs.len) || RET->data[g_k] == g_s.byte)))
__CPROVER_ensures(RET == NULL || (g_live == OLD(g_live) + 2 && g_malloc_calls == OLD(g_malloc_calls) + 2 && g_last_req == g_cs.len));

cbor_item_t *cbor_build_stringn(const char *val, size_t length)
__CPROVER_requires(ALLOC_MODEL_BOUND && length <= VERIF_MAXOBJ && (length == 0 || __CPROVER_r_ok(val, length)))
__CPROVER_requires(!g_s.valid || g_k >= length || (unsigned char)val[g_k] == g_s.byte)
__CPROVER_assigns(ALLOC_GHOSTS, g_u)
__CPROVER_ensures(g_realloc_calls == OLD(g_realloc_calls))
__CPROVER_ensures(RET == NULL ==> (g_live == OLD(g_live) && g_refused))
__CPROVER_ensures(RET == NULL || (__CPROVER_is_fresh(RET, sizeof(cbor_item_t)) && RET->refcount == 1 &&
                                  RET->type == CBOR_TYPE_STRING && ST_META(RET).type == _CBOR_METADATA_DEFINITE &&
                                  ST_META(RET).length == length && __CPROVER_is_fresh(RET->data, length) &&
                                  (!(g_s.valid && g_k < length) || RET->data[g_k] == g_s.byte)))
__CPROVER_ensures(RET == NULL || (g_live == OLD(g_live) + 2 && g_malloc_calls == OLD(g_malloc_calls) + 2 && g_last_req == length));
#endif
