#include <stdlib.h>
#include "cbor.h"
#include "cbor/internal/unicode.h"
#include "stubs/alloc_model.h"
#include "spec/utf8.h"

#include "contracts/unicode.h"
uint32_t _cbor_unicode_decode(uint32_t *state, uint32_t *codep, uint32_t byte);
size_t nondet_size(void);
uint32_t nondet_u32(void);

#if defined(H_DECODE_STEP)
/* all 9 states x 256 bytes */
void harness(void) {
  uint32_t in_state = nondet_u32(), in_byte = nondet_u32(), cp = nondet_u32();
  uint32_t st = in_state;
  uint32_t r = _cbor_unicode_decode(&st, &cp, in_byte);
  __CPROVER_assert(r != U_START, "COVER accept");
  __CPROVER_assert(r != U_REJECT, "COVER reject");
  __CPROVER_assert(!(in_state == U_F4 && r == U_T2), "COVER F4 80-8F");
  __CPROVER_assert(!(in_state == U_ED && r == U_REJECT), "COVER surrogate rejected");
}
#elif defined(H_COUNT)
/* any buffer of any length */
void harness(void) {
  size_t in_len = nondet_size();
  __CPROVER_assume(in_len <= VERIF_MAXOBJ);
  unsigned char *buf = malloc(in_len);
  __CPROVER_assume(buf != NULL);
  struct _cbor_unicode_status st;
  g_u_src = buf; g_u_len = in_len; g_u_calls = 0; g_u_count = 0; g_u_state = U_START;
  size_t r = _cbor_unicode_codepoint_count(buf, in_len, &st);
  __CPROVER_assert(!(st.status == _CBOR_UNICODE_OK && r > 0), "COVER valid non-empty text");
  __CPROVER_assert(!(st.status == _CBOR_UNICODE_BADCP), "COVER invalid text");
  __CPROVER_assert(!(st.status == _CBOR_UNICODE_BADCP && g_u_calls == in_len), "COVER truncated sequence at the end");
  __CPROVER_assert(!(st.status == _CBOR_UNICODE_OK && r < in_len), "COVER multi-byte scalar");
}
#elif defined(H_COUNT_BOUNDED)
/* bounded cross-check of the fold argument: exact count and status against the reference validator */
#ifndef UTF8_BOUND
#define UTF8_BOUND 8
#endif
void harness(void) {
  size_t in_len = nondet_size();
  __CPROVER_assume(in_len <= UTF8_BOUND);
  unsigned char *buf = malloc(in_len);
  __CPROVER_assume(buf != NULL);
  unsigned char w_0 = in_len > 0 ? buf[0] : 0, w_1 = in_len > 1 ? buf[1] : 0, w_2 = in_len > 2 ? buf[2] : 0,
                w_3 = in_len > 3 ? buf[3] : 0, w_4 = in_len > 4 ? buf[4] : 0, w_5 = in_len > 5 ? buf[5] : 0,
                w_6 = in_len > 6 ? buf[6] : 0, w_7 = in_len > 7 ? buf[7] : 0;
  struct _cbor_unicode_status st;
  size_t r = _cbor_unicode_codepoint_count(buf, in_len, &st);
  size_t e = spec_utf8_count(buf, in_len);
  if (e == (size_t)-1)
    __CPROVER_assert(r == 0 && st.status == _CBOR_UNICODE_BADCP, "C16: invalid UTF-8 gives count 0 and BADCP");
  else
    __CPROVER_assert(r == e && st.status == _CBOR_UNICODE_OK, "C16: valid UTF-8 gives the number of scalar values");
  __CPROVER_assert(!(e != (size_t)-1 && e >= 2 && e < in_len), "COVER valid multi-scalar text");
  __CPROVER_assert(e != (size_t)-1, "COVER invalid");
  (void)w_0; (void)w_1; (void)w_2; (void)w_3; (void)w_4; (void)w_5; (void)w_6; (void)w_7;
}
#endif
