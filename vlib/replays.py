"""Replay of verifier counterexamples against the real code (DESIGN section 6).

write_replay() is called for every failed obligation that is not a listed known finding.  It writes
/verif/replays/<id>-<proof>-<obligation>.json carrying the failed obligation, the verifier's output
and the reduced counterexample; where the proof names a native replay handler, the real library is
built from /repo with clang ASan+UBSan and the counterexample inputs are run against it."""
import glob, json, os, re, shutil, subprocess, tempfile

from . import driver

VERIF = driver.VERIF


def lib_sources():
    srcs = sorted(glob.glob(os.path.join(driver.SRC, "*.c")) + glob.glob(os.path.join(driver.SRC, "cbor", "*.c"))
                  + glob.glob(os.path.join(driver.SRC, "cbor", "internal", "*.c")))
    return srcs


def build_native(prog, tmp, extra_defs=(), sanitize=True, debug=True):
    gen = os.path.join(tmp, "gen")
    driver.gen_headers(gen)
    exe = os.path.join(tmp, "replay.exe")
    cmd = ["clang", "-g", "-O1", "-std=gnu11", "-w"] + driver.REAL_DEFINES
    if debug:
        cmd += ["-DDEBUG=1"]
    if sanitize:
        cmd += ["-fsanitize=address,undefined", "-fno-sanitize-recover=undefined"]
    cmd += ["-D" + d for d in extra_defs]
    cmd += ["-I", gen, "-I", driver.SRC, "-I", VERIF, prog] + lib_sources() + ["-lm", "-o", exe]
    p = subprocess.run(cmd, stdout=subprocess.PIPE, stderr=subprocess.STDOUT, timeout=300)
    if p.returncode != 0:
        return None, p.stdout.decode("utf-8", "replace")[-3000:]
    return exe, ""


def run_native(prog_rel, args, extra_defs=(), timeout=60, sanitize=True):
    """Build /verif/replay/<prog> against the real sources and run it with args.
    Native programs exit 0 when the real code satisfies the spec on this input, 3 when the
    real code violates it (message on stdout), anything else (sanitizer abort etc.) is reported raw."""
    tmp = tempfile.mkdtemp(prefix="verif-replay-")
    try:
        exe, err = build_native(os.path.join(VERIF, "replay", prog_rel), tmp, extra_defs, sanitize=sanitize)
        if exe is None:
            return dict(built=False, output=err, reproduced=None)
        env = dict(os.environ, ASAN_OPTIONS="detect_leaks=1:abort_on_error=0", UBSAN_OPTIONS="print_stacktrace=1")
        try:
            p = subprocess.run([exe] + [str(a) for a in args], stdout=subprocess.PIPE, stderr=subprocess.STDOUT,
                               timeout=timeout, env=env)
            out = p.stdout.decode("utf-8", "replace")
            if len(out) > 4500:
                out = out[:2000] + "\n[...]\n" + out[-2500:]
            rc = p.returncode
        except subprocess.TimeoutExpired:
            return dict(built=True, output="native replay timed out", reproduced=None)
        reproduced = (rc != 0)
        return dict(built=True, rc=rc, output=out, reproduced=reproduced, argv=[str(a) for a in args])
    finally:
        shutil.rmtree(tmp, ignore_errors=True)


def _num(v, default=0):
    if v is None:
        return default
    if isinstance(v, (int, float)):
        return v
    s = str(v).strip()
    s = re.sub(r"[uUlL]+$", "", s)
    try:
        if s.lower() in ("true", "false"):
            return 1 if s.lower() == "true" else 0
        return int(s, 0)
    except ValueError:
        try:
            return float(s)
        except ValueError:
            return default


def h_stream_decode(inputs, proof):
    """inputs: in_size, w_0..w_15 (first buffer bytes)."""
    n = _num(inputs.get("in_size"), 0)
    bs = [_num(inputs.get("w_%d" % i), 0) & 0xFF for i in range(16)]
    return run_native("stream_decode.c", [n] + ["%02x" % b for b in bs])


def h_generic(prog):
    """argv = in_*/w_* assignments of the counterexample; the program is compiled with the proof's -D defines."""
    def h(inputs, proof):
        args = []
        for k in sorted(inputs):
            if re.match(r"^(in_|w_)[A-Za-z0-9_]*$", k):
                v = inputs[k]
                args.append("%s=%s" % (k, _num(v, 0)))
        return run_native(prog, args, extra_defs=proof.get("defines", []))
    return h


HANDLERS = {
    "stream_decode": h_stream_decode,
    "encoders": h_generic("encoders.c"),
    "floats": h_generic("floats.c"),
    "utf8": h_generic("utf8.c"),
    "memutils": h_generic("memutils.c"),
    "load": h_generic("load.c"),
    "array_get": h_generic("array_get.c"),
    "copy_negint": h_generic("copy_negint.c"),
    "tag_readonly": h_generic("tag_readonly.c"),
    # decode layer: the failed obligation is about one abstract transition; the replay SEARCHES for a concrete failing
    # input of cbor_load on the real code against an RFC 8949 reference (replay/load_oracle.c), inputs or not
    "load_oracle": lambda inputs, proof: run_native("load_oracle.c", [], timeout=300),
    # copy layer: same idea (replay/copy_oracle.c: copy every small decoded tree, compare, release, refuse allocations)
    "copy_oracle": lambda inputs, proof: run_native("copy_oracle.c", [], timeout=300),
}
# handlers that do not need an input assignment from the verifier
SWEEP_HANDLERS = {"load_oracle", "copy_oracle"}


def write_replay(pid, proof, r, obs):
    """One replay file per (property, proof): every failed obligation of that proof attributed to the
    property, the verifier's reduced counterexamples, and the native replay outcome."""
    os.makedirs(os.path.join(VERIF, "replays"), exist_ok=True)
    safe = re.sub(r"[^A-Za-z0-9_.-]", "_", "%s-%s" % (pid, r["name"]))[:150]
    path = os.path.join(VERIF, "replays", safe + ".json")
    info = dict(property=pid, proof=r["name"], back_end=r.get("backend"),
                failed_obligations=[dict(name=ob["name"], description=ob["desc"], kind=ob.get("kind"),
                                         source_file=ob.get("file"), source_line=ob.get("line"),
                                         verifier_status=ob["status"],
                                         counterexample_inputs=ob.get("inputs") or {}) for ob in obs],
                failed_obligation=obs[0]["name"], description=obs[0]["desc"],
                verifier_cmd=r.get("cmd"),
                note="each listed obligation is discharged on the unchanged tree; FAILURE is a satisfying assignment "
                     "found by CBMC for the contract-abstracted program, not a timeout")
    handler = proof.get("replay") if isinstance(proof, dict) else None
    info["reproduced_on_real_code"] = False
    info["native_replays"] = []
    if handler and handler in HANDLERS:
        info["native_replay_handler"] = handler
        info["proof_defines"] = proof.get("defines", [])
        for ob in obs:
            if not ob.get("inputs") and handler not in SWEEP_HANDLERS:
                continue
            try:
                nat = HANDLERS[handler](ob["inputs"], proof)
            except Exception as e:  # replay trouble must not mask the violation
                nat = dict(built=False, output="replay handler error: %r" % (e,), reproduced=None)
            nat["for_obligation"] = ob["name"]
            info["native_replays"].append(nat)
            if nat.get("reproduced"):
                info["reproduced_on_real_code"] = True
                info["counterexample_inputs"] = ob["inputs"]
                if handler in SWEEP_HANDLERS:
                    info["failing_input_found_by"] = ("native sweep of the real code against a reference "
                                                      "(replay/%s.c); the failing input is in the output below, it "
                                                      "is not derived from the verifier's trace" % handler)
                break
            if handler in SWEEP_HANDLERS:
                break   # one sweep per replay file
        if not info["native_replays"]:
            info["native_replay"] = "handler %s registered but the verifier gave no usable input assignment" % handler
    else:
        info["native_replay"] = "no native replay exists for this proof (no-failing-input-found); the failed obligation and the verifier output above are the report"
    with open(path, "w") as f:
        json.dump(info, f, indent=1)
    return path


def replay_file(path):
    info = json.load(open(path))
    print(json.dumps({k: info[k] for k in ("property", "proof", "failed_obligation", "description")}, indent=1))
    h = info.get("native_replay_handler")
    if h and (info.get("counterexample_inputs") or h in SWEEP_HANDLERS):
        nat = HANDLERS[h](info.get("counterexample_inputs") or {}, dict(defines=info.get("proof_defines", [])))
        print(nat.get("output", ""))
        print("reproduced_on_real_code:", nat.get("reproduced"))
        return 1 if nat.get("reproduced") else 0
    print("no native replay available; re-run bin/check %s --only %s" % (info["property"], info["proof"]))
    return 0
