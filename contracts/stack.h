/* Decoding stack (C19, C06, C01): push refuses exactly at the configured limit L = CBOR_MAX_STACK_SIZE.
 * In the C19 proofs configuration.h is generated with L = verif_max_stack_size, a symbolic value >= 1,
 * so one proof covers every build-time value of the limit. */
#ifndef VERIF_C_STACK_H
#define VERIF_C_STACK_H
#include "contracts/items_cont.h"
#include "cbor/internal/stack.h"

#define STACK_OK(st) (__CPROVER_rw_ok((st), sizeof(struct _cbor_stack)))
#define REC_OK(r) (__CPROVER_rw_ok((r), sizeof(struct _cbor_stack_record)))

struct _cbor_stack _cbor_stack_init(void)
__CPROVER_assigns()
__CPROVER_ensures(__CPROVER_return_value.top == NULL && __CPROVER_return_value.size == 0);

void _cbor_stack_pop(struct _cbor_stack *stack)
__CPROVER_requires(ALLOC_MODEL_BOUND && STACK_OK(stack) && stack->size >= 1 && REC_OK(stack->top) && HEAP_BLOCK(stack->top))
__CPROVER_assigns(ALLOC_GHOSTS, *stack)
__CPROVER_frees(stack->top)
__CPROVER_ensures(stack->top == OLD(stack->top->lower) && stack->size == OLD(stack->size) - 1)
__CPROVER_ensures(g_free_calls == OLD(g_free_calls) + 1 && g_live == OLD(g_live) - 1 &&
                  g_malloc_calls == OLD(g_malloc_calls) && g_realloc_calls == OLD(g_realloc_calls));

struct _cbor_stack_record *_cbor_stack_push(struct _cbor_stack *stack, cbor_item_t *item, size_t subitems)
__CPROVER_requires(ALLOC_MODEL_BOUND && STACK_OK(stack) && stack->size <= CBOR_MAX_STACK_SIZE)
__CPROVER_assigns(ALLOC_GHOSTS, *stack)
/* at the limit: refused before any allocator request, nothing changes */
__CPROVER_ensures(OLD(stack->size) == CBOR_MAX_STACK_SIZE ==>
                  (RET == NULL && g_malloc_calls == OLD(g_malloc_calls)))
/* below the limit: exactly one request for one frame; refused only by the allocator */
__CPROVER_ensures(OLD(stack->size) < CBOR_MAX_STACK_SIZE ==>
                  (g_malloc_calls == OLD(g_malloc_calls) + 1 && g_last_req == sizeof(struct _cbor_stack_record) &&
                   (RET == NULL ==> g_refused)))
__CPROVER_ensures(RET == NULL ==> (stack->top == OLD(stack->top) && stack->size == OLD(stack->size) && g_live == OLD(g_live)))
/* the new frame is named through stack->top (is_fresh makes THAT location a known pointer for callers that use
 * this contract in replace mode and then look at the frame through the stack) */
__CPROVER_ensures(RET == NULL || (__CPROVER_is_fresh(stack->top, sizeof(struct _cbor_stack_record)) &&
                                  stack->top->lower == OLD(stack->top) && stack->top->item == item &&
                                  stack->top->subitems == subitems && RET == stack->top))
__CPROVER_ensures(RET == NULL || (stack->size == OLD(stack->size) + 1 &&
                                  stack->size <= CBOR_MAX_STACK_SIZE && g_live == OLD(g_live) + 1))
__CPROVER_ensures(g_realloc_calls == OLD(g_realloc_calls) && g_free_calls == OLD(g_free_calls));
#endif
