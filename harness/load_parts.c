/* Harnesses for the verbatim regions of cbor_load (generated TU cbor_load_parts.c, vlib/extract.py). */
#include "harness/mkitem.h"
#include "stubs/alloc_model.h"
#include "contracts/load_parts.h"

struct verif_load_ghost g_l;

bool cbor_load__iteration(LOAD_PARAMS);
cbor_item_t *cbor_load__exit(LOAD_PARAMS);
void cbor_load__error_entry(LOAD_PARAMS);
void cbor_load__cleanup_iteration(LOAD_PARAMS);
cbor_item_t *cbor_load__error_exit(LOAD_PARAMS);

/* an arbitrary state of cbor_load's locals: any input, any read offset, any depth, any frame on top */
#define LOAD_STATE                                                              \
  VERIF_ALLOC_RESET();                                                          \
  verif_bind_allocator();                                                       \
  g_k = 0; g_s.valid = false;                                                   \
  g_b.append_calls = 0; g_b.appended = NULL; g_b.expect = false; g_b.expect_push = false; \
  g_d.calls = 0; g_d.hits = 0; g_d.last = NULL;                                 \
  g_l.calls = 0;                                                                \
  struct cbor_load_result *res = mk_block(sizeof(*res));                        \
  size_t in_size = nondet_size();                                               \
  __CPROVER_assume(in_size >= 1 && in_size <= VERIF_MAXOBJ);                    \
  unsigned char *src = mk_block(in_size);                                       \
  struct _cbor_stack *st = mk_block(sizeof(*st));                               \
  struct _cbor_decoder_context *ctx = mk_block(sizeof(*ctx));                   \
  struct cbor_callbacks *cbs = mk_block(sizeof(*cbs));                          \
  ctx->stack = st;                                                              \
  if (nondet_bool()) {                                                          \
    st->top = NULL;                                                             \
    st->size = 0;                                                               \
  } else {                                                                      \
    struct _cbor_stack_record *rec = mk_block(sizeof(*rec));                    \
    /* the regions never look inside the item on top (decoder and decref are contracts): a bare node */ \
    cbor_item_t *top_item = mk_block(sizeof(cbor_item_t));                      \
    __CPROVER_assume(top_item->refcount >= 1);                                  \
    rec->item = top_item;                                                       \
    st->top = rec;                                                              \
    __CPROVER_assume(st->size >= 1);                                            \
  }

#if defined(H_LOAD_PROLOGUE)
cbor_item_t *cbor_load__prologue(cbor_data source, size_t source_size, struct cbor_load_result *result,
                                 struct _cbor_stack *verif_out_stack, struct _cbor_decoder_context *verif_out_context,
                                 bool *verif_entered);
/* any input including the empty one; the result pre-filled with arbitrary bytes (the sentinel of the property text) */
void harness(void) {
  VERIF_ALLOC_RESET();
  verif_bind_allocator();
  g_alloc_forbidden = true;
  g_k = 0; g_s.valid = false;
  struct cbor_load_result *res = mk_block(sizeof(*res));
  size_t in_size = nondet_size();
  __CPROVER_assume(in_size <= VERIF_MAXOBJ);
  unsigned char *src = nondet_bool() ? NULL : mk_block(in_size);
  struct _cbor_stack *st = mk_block(sizeof(*st));
  struct _cbor_decoder_context *ctx = mk_block(sizeof(*ctx));
  bool *entered = mk_block(sizeof(bool));
  cbor_item_t *r = cbor_load__prologue(src, in_size, res, st, ctx, entered);
  __CPROVER_assert(*entered, "COVER empty input answered");
  __CPROVER_assert(!*entered, "COVER loop entered");
}
#endif

#if defined(H_LOAD_ITER)
void harness(void) {
  LOAD_STATE
  size_t read0 = res->read;
  bool err = cbor_load__iteration(src, in_size, res, st, ctx, cbs);
  __CPROVER_assert(!err, "COVER iteration left through the error label");
  __CPROVER_assert(err, "COVER iteration fell through");
  __CPROVER_assert(!(err && res->error.code == CBOR_ERR_NOTENOUGHDATA && g_l.calls == 0), "COVER input exhausted with an item open");
  __CPROVER_assert(!(err && res->error.code == CBOR_ERR_NOTENOUGHDATA && g_l.calls == 1), "COVER truncated head");
  __CPROVER_assert(!(err && res->error.code == CBOR_ERR_MALFORMATED), "COVER malformed");
  __CPROVER_assert(!(err && res->error.code == CBOR_ERR_MEMERROR), "COVER memory error");
  __CPROVER_assert(!(err && res->error.code == CBOR_ERR_SYNTAXERROR), "COVER syntax error");
  __CPROVER_assert(!(!err && res->read == in_size), "COVER whole input consumed");
}
#endif

#if defined(H_LOAD_EXIT)
void harness(void) {
  LOAD_STATE
  cbor_item_t *r = cbor_load__exit(src, in_size, res, st, ctx, cbs);
  __CPROVER_assert(r != ctx->root, "COVER exit returned the root");
}
#endif

#if defined(H_LOAD_ERR_ENTRY)
void harness(void) {
  LOAD_STATE
  cbor_load__error_entry(src, in_size, res, st, ctx, cbs);
  __CPROVER_assert(0, "COVER error entry returned");
}
#endif

#if defined(H_LOAD_CLEANUP)
void harness(void) {
  LOAD_STATE
  cbor_load__cleanup_iteration(src, in_size, res, st, ctx, cbs);
  __CPROVER_assert(0, "COVER cleanup iteration returned");
  __CPROVER_assert(st->size != 0, "COVER last frame released");
}
#endif

#if defined(H_LOAD_ERR_EXIT)
void harness(void) {
  LOAD_STATE
  cbor_item_t *r = cbor_load__error_exit(src, in_size, res, st, ctx, cbs);
  __CPROVER_assert(0, "COVER error exit returned");
}
#endif
