"""Registry of proofs: one entry per (function under contract, harness).  See DESIGN 2.3.

props maps a property id to the obligation kinds of this proof that count for it:
  "all" | list of kinds from driver.classify():
  postcondition precondition assigns frees loop safety cbor_assert assertion dfcc_internal
Harness assertions whose text starts with "Cnn[,Cmm]:" are attributed by that tag regardless."""

MEMLIB = ["cbor/internal/memory_utils.c"]
ALLOC_STUBS = ["stubs/alloc_model.c", "stubs/allocators_def.c"]

SAFETY = ["safety", "cbor_assert", "precondition", "dfcc_internal"]
FUNC = ["postcondition", "loop"]
FRAME = ["assigns", "frees"]

TRUSTED_BASE = [
    "A3: CBMC 6.11 C semantics, object/offset memory model (objects <= 2^40 bytes in these proofs), SAT back ends, DFCC instrumentation",
    "A4: CBMC libc models (malloc, realloc, free, memcpy, strlen, isnan) and the ldexp model in stubs/ldexp_model.c",
    "A5: the configured allocator is any implementation satisfying stubs/alloc_model.c (fresh disjoint blocks of the requested size; realloc preserves the common prefix; free only invalidates its argument)",
    "A6: generated configuration.h/cbor_export.h, little-endian path, DEBUG flavour (CBOR_ASSERT active), restrict ignored; the compiler building the shipped library is not verified",
    "A7: spec/*.h are the definition of 'per RFC 8949 / RFC 3629 / IEEE 754'",
]

MANIFEST_NOTES = ("Contract-based deductive verification of the unmodified libcbor sources with CBMC 6.11 DFCC. "
                  "Every check rebuilds goto binaries from /repo's working tree. Exit 0 = all obligations discharged, "
                  "1 = VIOLATION (failed obligation, counterexample replayed natively where a replay exists), "
                  "2 = UNDECIDED (tool failure / timeout / vacuity guard) - never reported as a violation. "
                  "Whole-tree / whole-history statements are inductions over discharged per-node / per-operation steps "
                  "and are labelled as meta-arguments in each evidence file.")

NOT_APPLICABLE = {}

PROPERTY_META = {}


def META(pid, **kw):
    PROPERTY_META[pid] = kw


META("C20",
     text="Unbounded proof for all 2^128 operand pairs: the real _cbor_safe_to_multiply/_cbor_safe_to_add/"
          "_cbor_safe_signaling_add/_cbor_alloc_multiple/_cbor_realloc_multiple are enforced against contracts "
          "stating 'guard true => mathematical product fits', 'sum exact or 0', 'granted block = exact product, one "
          "request'; growth sites and serialized-size accumulation are proved per function on top of these contracts.",
     note="Trusted: CBMC semantics and back ends, allocator model. 64-bit size_t only (no ILP32 headers in the image). "
          "Sums over children of composite items: per-step exact-or-0 is proved, the fold over all children is a meta-argument.",
     trusted=[], uncovered=["ILP32 re-run not possible in this image (no 32-bit libc headers): CHECK_LENGTH is trivially true on LP64"],
     meta=["fold of the exact-or-0 accumulation step over all children of a composite item"])

META("C08",
     text="Unbounded proof: the real cbor_stream_decode (loop-free, all 256 initial bytes, every buffer length up to "
          "2^40, every argument value including declared lengths up to 2^64-1) is enforced against a contract written "
          "from the property statement and RFC 8949 section 3, with a recording callback table: exactly one of "
          "FINISHED (one callback, matching kind, exact arguments, payload pointer inside the buffer, read = head+payload), "
          "NEDATA (no callback, read 0, buffer length < required <= head+payload) or ERROR (iff reserved/unsupported "
          "initial byte). Frame = recorder ghosts only (stateless, allocates nothing). Independence from trailing "
          "bytes is a relational harness over two buffers.",
     note="Trusted: CBMC, spec/head.h as the definition of an RFC 8949 head, ldexp model (validated natively in setup). "
          "Buffers are limited to 2^40 bytes by the object/offset pointer model.",
     trusted=[], uncovered=[], meta=[])

PROOFS = []


def P(**kw):
    kw.setdefault("tier", "quick")
    kw.setdefault("kind", "proof")
    PROOFS.append(kw)
    return kw


# ------------------------------------------------------------------------------------------------
# L0 arithmetic (C20)

P(name="highest_bit", props={"C20": FUNC + FRAME, "C01": SAFETY},
  lib=MEMLIB, stubs=ALLOC_STUBS, contracts=["contracts/memory_utils.h"],
  harness="harness/memutils.c", defines=["H_HIGHEST_BIT"], enforce="_cbor_highest_bit",
  unwindset="_cbor_highest_bit_wrapped_for_contract_checking.0:66",
  must_exist=[r"_cbor_highest_bit\.postcondition\.1", r"_cbor_highest_bit.*\.unwind\.0"],
  note="width-bounded loop unwound completely (65 iterations max for a 64-bit operand): complete, not a bound on inputs")

P(name="safe_to_multiply", props={"C20": FUNC + FRAME, "C01": SAFETY},
  lib=MEMLIB, stubs=ALLOC_STUBS, contracts=["contracts/memory_utils.h"],
  harness="harness/memutils.c", defines=["H_SAFE_TO_MULTIPLY"], enforce="_cbor_safe_to_multiply",
  replace=["_cbor_highest_bit"], replay="memutils",
  must_exist=[r"_cbor_safe_to_multiply\.postcondition\.3"])

P(name="safe_to_add", props={"C20": FUNC + FRAME, "C01": SAFETY},
  lib=MEMLIB, stubs=ALLOC_STUBS, contracts=["contracts/memory_utils.h"],
  harness="harness/memutils.c", defines=["H_SAFE_TO_ADD"], enforce="_cbor_safe_to_add", replay="memutils",
  must_exist=[r"_cbor_safe_to_add\.postcondition\.1"])

P(name="safe_signaling_add", props={"C20": FUNC + FRAME, "C01": SAFETY},
  lib=MEMLIB, stubs=ALLOC_STUBS, contracts=["contracts/memory_utils.h"],
  harness="harness/memutils.c", defines=["H_SIGNALING_ADD"], enforce="_cbor_safe_signaling_add",
  replace=["_cbor_safe_to_add"], replay="memutils",
  must_exist=[r"_cbor_safe_signaling_add\.postcondition\.2"])

P(name="alloc_multiple", props={"C20": FUNC + FRAME, "C06": FUNC + FRAME, "C13": FUNC + FRAME, "C01": SAFETY},
  lib=MEMLIB, stubs=ALLOC_STUBS, contracts=["contracts/memory_utils.h"],
  harness="harness/memutils.c", defines=["H_ALLOC_MULTIPLE"], enforce="_cbor_alloc_multiple",
  replace=["_cbor_safe_to_multiply"], backend="cvc5",
  must_exist=[r"_cbor_alloc_multiple\.postcondition\.6"])

P(name="realloc_multiple", props={"C20": [], "C12": [], "C06": [], "C13": [], "C01": SAFETY},
  lib=MEMLIB, stubs=ALLOC_STUBS, contracts=["contracts/memory_utils.h"],
  harness="harness/memutils.c", defines=["H_REALLOC_MULTIPLE"], enforce=None,
  replace=["_cbor_safe_to_multiply"], also_verified=["_cbor_realloc_multiple"],
  min_covers=4, backend="cadical")

# ------------------------------------------------------------------------------------------------
# L1 streaming decoder (C08 and the properties that build on it)

STREAMLIB = ["cbor/streaming.c", "cbor/internal/loaders.c"]
REC_STUBS = ALLOC_STUBS + ["stubs/recorder.c", "stubs/ldexp_model.c"]

P(name="stream_decode_contract",
  props={"C08": FUNC + FRAME, "C01": SAFETY, "C13": [], "C09": FUNC, "C14": FUNC, "C02": FUNC, "C05": FUNC},
  lib=STREAMLIB, stubs=REC_STUBS, contracts=["contracts/streaming.h"], defines=["VERIF_STREAM_CONTRACT"],
  harness="harness/stream_decode.c", enforce="cbor_stream_decode", replay="stream_decode",
  must_exist=[r"cbor_stream_decode\.postcondition\.14", r"rec_uint8\.assigns\.1"], min_covers=10, cost=30)
