#include <stddef.h>
size_t g_k; /* ghost index: "the element at an arbitrary position" */
