#include "contracts/unicode.h"
struct verif_utf8_ghost g_u;
const unsigned char *g_u_src;
size_t g_u_len;
