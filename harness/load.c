/* cbor_load harnesses. */
#include "harness/mkitem.h"
#include "stubs/alloc_model.h"
#include "contracts/load.h"

#if defined(H_LOAD_EMPTY)
/* empty input (any pointer, length 0): result pre-filled with arbitrary bytes = the sentinel of the property text */
void harness(void) {
  VERIF_ALLOC_RESET();
  verif_bind_allocator();
  g_alloc_forbidden = true;
  g_k = 0; g_s.valid = false;
  struct cbor_load_result *res = mk_block(sizeof(*res));
  unsigned char *src = nondet_bool() ? NULL : mk_block(0);
  cbor_item_t *r = cbor_load(src, 0, res);
  __CPROVER_assert(r == NULL, "C05: empty input yields no item");
  __CPROVER_assert(0, "COVER load returned");
}
#endif
