/* cbor_load harnesses. */
#include "harness/mkitem.h"
#include "stubs/alloc_model.h"
#include "contracts/load.h"

#if defined(H_LOAD_EMPTY)
/* empty input (any pointer, length 0): result pre-filled with arbitrary bytes = the sentinel of the property text */
void harness(void) {
  VERIF_ALLOC_RESET();
  verif_bind_allocator();
  g_alloc_forbidden = true;
  g_k = 0; g_s.valid = false;
  struct cbor_load_result *res = mk_block(sizeof(*res));
  unsigned char *src = nondet_bool() ? NULL : mk_block(0);
  cbor_item_t *r = cbor_load(src, 0, res);
  __CPROVER_assert(r == NULL, "C05: empty input yields no item");
  __CPROVER_assert(0, "COVER load returned");
}
#endif

#if defined(H_LOAD_LOOP)
/* any non-empty buffer; the streaming decoder with the builder table is represented by K' */
void harness(void) {
  VERIF_ALLOC_RESET();
  verif_bind_allocator();
  g_k = 0; g_s.valid = false;
  g_b.append_calls = 0; g_b.appended = NULL; g_b.expect = false; g_b.expect_push = false;
  g_d.calls = 0; g_d.hits = 0; g_d.last = NULL;
  struct cbor_load_result *res = mk_block(sizeof(*res));
  size_t in_size = nondet_size();
  __CPROVER_assume(in_size >= 1 && in_size <= VERIF_MAXOBJ);
  unsigned char *src = mk_block(in_size);
  cbor_item_t *r = cbor_load(src, in_size, res);
  __CPROVER_assert(r != NULL, "COVER load failed");
  __CPROVER_assert(r == NULL, "COVER load succeeded");
  __CPROVER_assert(!(r == NULL && res->error.code == CBOR_ERR_NOTENOUGHDATA && res->read > 0), "COVER truncated after some heads");
  __CPROVER_assert(!(r == NULL && res->error.code == CBOR_ERR_MALFORMATED), "COVER malformed");
  __CPROVER_assert(!(r == NULL && res->error.code == CBOR_ERR_MEMERROR), "COVER memory error");
  __CPROVER_assert(!(r == NULL && res->error.code == CBOR_ERR_SYNTAXERROR), "COVER syntax error");
  __CPROVER_assert(!(r != NULL && res->read < in_size), "COVER item followed by more bytes");
}
#endif
