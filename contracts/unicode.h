/* Contracts for src/cbor/internal/unicode.c (C16). */
#ifndef VERIF_C_UNICODE_H
#define VERIF_C_UNICODE_H
#include "contracts/ghost.h"
#include "cbor/internal/unicode.h"
#include "spec/utf8.h"

/* ghost "reference run": the RFC 3629 automaton advanced once per DFA step, over the bytes of g_u_src in order */
struct verif_utf8_ghost {
  size_t calls;   /* bytes consumed so far */
  size_t count;   /* scalar values completed so far */
  unsigned state; /* enum spec_utf8_state */
};
extern struct verif_utf8_ghost g_u;
extern const unsigned char *g_u_src;
extern size_t g_u_len;
#define g_u_calls g_u.calls
#define g_u_count g_u.count
#define g_u_state g_u.state

/* the step function of the DFA is the step function of the RFC 3629 automaton (bisimulation, identity on states) */
#define UNICODE_DECODE_STEP                                                                     \
  __CPROVER_requires(__CPROVER_rw_ok(state, sizeof(uint32_t)) && __CPROVER_rw_ok(codep, sizeof(uint32_t))) \
  __CPROVER_requires(*state <= 8 && byte <= 255)                                                \
  __CPROVER_ensures(*state == spec_utf8_step(__CPROVER_old(*state), byte))                      \
  __CPROVER_ensures(__CPROVER_return_value == *state)

uint32_t _cbor_unicode_decode(uint32_t *state, uint32_t *codep, uint32_t byte)
UNICODE_DECODE_STEP
__CPROVER_assigns(*state, *codep);

/* same step contract + ghost bookkeeping; used only to REPLACE the call inside the counting loop.  Its
 * preconditions are asserted at the call site: the byte handed over is the next byte of the buffer and the
 * DFA state mirrors the reference state. */
uint32_t _cbor_unicode_decode__ghost(uint32_t *state, uint32_t *codep, uint32_t byte)
UNICODE_DECODE_STEP
__CPROVER_requires(g_u_calls < g_u_len && byte == g_u_src[g_u_calls] && *state == g_u_state)
__CPROVER_assigns(*state, *codep, g_u)
__CPROVER_ensures(g_u_state == *state && g_u_calls == __CPROVER_old(g_u_calls) + 1)
__CPROVER_ensures(g_u_count == __CPROVER_old(g_u_count) + (*state == U_START ? 1 : 0));

/* for callers that are not concerned with the value of the count (the decoder's string callback): no ghost run */
size_t _cbor_unicode_codepoint_count__plain(cbor_data source, size_t source_length, struct _cbor_unicode_status *status)
__CPROVER_requires(source_length <= VERIF_MAXOBJ && __CPROVER_r_ok(source, source_length))
__CPROVER_requires(__CPROVER_w_ok(status, sizeof(*status)))
__CPROVER_assigns(*status)
__CPROVER_ensures(__CPROVER_return_value <= source_length &&
                  (status->status == _CBOR_UNICODE_OK || status->status == _CBOR_UNICODE_BADCP));

size_t _cbor_unicode_codepoint_count(cbor_data source, size_t source_length, struct _cbor_unicode_status *status)
__CPROVER_requires(source_length <= VERIF_MAXOBJ && __CPROVER_r_ok(source, source_length))
__CPROVER_requires(__CPROVER_w_ok(status, sizeof(*status)))
__CPROVER_requires(g_u_src == source && g_u_len == source_length && g_u_calls == 0 && g_u_count == 0 && g_u_state == U_START)
__CPROVER_assigns(*status, g_u)
/* the reference run consumed the whole buffer, or stopped in the absorbing reject state */
__CPROVER_ensures(g_u_state == U_REJECT || g_u_calls == source_length)
/* valid <=> the reference run ends at a scalar boundary: exact count, status OK */
__CPROVER_ensures(g_u_state == U_START ==>
                  (__CPROVER_return_value == g_u_count && status->status == _CBOR_UNICODE_OK))
/* invalid (rejected byte or truncated sequence): 0 and BADCP */
__CPROVER_ensures(g_u_state != U_START ==>
                  (__CPROVER_return_value == 0 && status->status == _CBOR_UNICODE_BADCP &&
                   status->location <= source_length))
__CPROVER_ensures(__CPROVER_return_value <= source_length);
#endif
