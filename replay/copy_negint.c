/* Native replay for C06 on cbor_copy of an integer: the allocator refuses the request made by the copy.
 * Documented failure channel: NULL.  (ASan/UBSan report the NULL dereference in _cbor_copy_int.) */
#include <stdio.h>
#include <stdlib.h>
#include "cbor.h"
static int fail_from = -1, calls = 0;
static void *f_malloc(size_t n) { if (fail_from >= 0 && calls++ >= fail_from) return NULL; return malloc(n); }
int main(void) {
  cbor_item_t *src = cbor_build_negint16(1234);
  cbor_set_allocs(f_malloc, realloc, free);
  fail_from = 0; calls = 0;
  cbor_item_t *c = cbor_copy(src);
  printf("copy under allocation failure returned %p\n", (void *)c);
  fail_from = -1;
  cbor_decref(&src);
  return c == NULL ? 0 : 3;
}
