/* Constructors, setters, reference counting primitives and container operations
 * (C04 deltas, C06 failure atomicity / no leak, C12 list view, C13 allocator traffic, C20 growth arithmetic). */
#ifndef VERIF_C_ITEMS_OPS_H
#define VERIF_C_ITEMS_OPS_H
#include "contracts/valid.h"
#include "contracts/unicode.h"

#define ALLOC_MODEL_BOUND                                                                       \
  (_cbor_malloc == v_malloc && _cbor_realloc == v_realloc && _cbor_free == v_free &&            \
   g_malloc_calls < SIZE_MAX / 2 && g_realloc_calls < SIZE_MAX / 2 && g_free_calls < SIZE_MAX / 2 && \
   g_live < SIZE_MAX / 2)

/* ---------------------------------------------------------------- reference counting primitives */
cbor_item_t *cbor_incref(cbor_item_t *item)
__CPROVER_requires(ITEM_RW(item) && item->refcount < SIZE_MAX)
__CPROVER_assigns(item->refcount)
__CPROVER_ensures(item->refcount == __CPROVER_old(item->refcount) + 1 && __CPROVER_return_value == item);

cbor_item_t *cbor_move(cbor_item_t *item)
__CPROVER_requires(ITEM_RW(item) && item->refcount >= 1)
__CPROVER_assigns(item->refcount)
__CPROVER_ensures(item->refcount == __CPROVER_old(item->refcount) - 1 && __CPROVER_return_value == item);

/* ---------------------------------------------------------------- integers */
#define INT_SETTER(name, ctype, w)                                                              \
  void name(cbor_item_t *item, ctype value)                                                     \
  __CPROVER_requires(INT_VALID(item) && INT_WIDTH(item) == (w))                                 \
  __CPROVER_assigns(__CPROVER_object_from(PAYLOAD(item)))                                       \
  __CPROVER_ensures(*(ctype *)PAYLOAD(item) == value);
INT_SETTER(cbor_set_uint8, uint8_t, CBOR_INT_8)
INT_SETTER(cbor_set_uint16, uint16_t, CBOR_INT_16)
INT_SETTER(cbor_set_uint32, uint32_t, CBOR_INT_32)
INT_SETTER(cbor_set_uint64, uint64_t, CBOR_INT_64)

void cbor_mark_uint(cbor_item_t *item)
__CPROVER_requires(ITEM_RW(item) && IS_INT(item)) __CPROVER_assigns(item->type)
__CPROVER_ensures(item->type == CBOR_TYPE_UINT);
void cbor_mark_negint(cbor_item_t *item)
__CPROVER_requires(ITEM_RW(item) && IS_INT(item)) __CPROVER_assigns(item->type)
__CPROVER_ensures(item->type == CBOR_TYPE_NEGINT);

/* a constructor obtains exactly one block of exactly `bytes` bytes, or fails leaving nothing behind */
/* NOTE (tool): everything said about the fresh result sits in ONE clause, after is_fresh and under the same
 * guard; a later clause dereferencing the result, or another conjunct placed BEFORE is_fresh, makes the formula
 * blow up (3.3M clauses instead of 30k) when the contract is used in REPLACE mode (probed). */
#define ONE_BLOCK_CTOR(bytes, props)                                                            \
  __CPROVER_requires(ALLOC_MODEL_BOUND)                                                         \
  __CPROVER_assigns(ALLOC_GHOSTS)                                                               \
  __CPROVER_ensures(g_malloc_calls == __CPROVER_old(g_malloc_calls) + 1 &&                      \
                    g_realloc_calls == __CPROVER_old(g_realloc_calls) &&                        \
                    g_free_calls == __CPROVER_old(g_free_calls))                                \
  __CPROVER_ensures(__CPROVER_return_value == NULL ==> (g_live == __CPROVER_old(g_live) && g_refused)) \
  __CPROVER_ensures(__CPROVER_return_value == NULL ||                                           \
                    (__CPROVER_is_fresh(__CPROVER_return_value, (bytes)) &&                     \
                     __CPROVER_return_value->refcount == 1 && (props)))                         \
  __CPROVER_ensures(__CPROVER_return_value == NULL ||                                           \
                    (g_live == __CPROVER_old(g_live) + 1 && g_last_req == (bytes)))

#define NEW_INT(name, w)                                                                        \
  cbor_item_t *name(void) ONE_BLOCK_CTOR(sizeof(cbor_item_t) + ((size_t)1 << (w)),              \
                    (__CPROVER_return_value->type == CBOR_TYPE_UINT &&                          \
                     INT_WIDTH(__CPROVER_return_value) == (w) &&                                \
                     __CPROVER_return_value->data == (unsigned char *)__CPROVER_return_value + sizeof(cbor_item_t)));
NEW_INT(cbor_new_int8, CBOR_INT_8)
NEW_INT(cbor_new_int16, CBOR_INT_16)
NEW_INT(cbor_new_int32, CBOR_INT_32)
NEW_INT(cbor_new_int64, CBOR_INT_64)

#define BUILD_INT(name, ctype, w, ty)                                                           \
  cbor_item_t *name(ctype value) ONE_BLOCK_CTOR(sizeof(cbor_item_t) + ((size_t)1 << (w)),       \
                    (__CPROVER_return_value->type == (ty) && INT_WIDTH(__CPROVER_return_value) == (w) && \
                     __CPROVER_return_value->data == (unsigned char *)__CPROVER_return_value + sizeof(cbor_item_t) && \
                     *(ctype *)PAYLOAD(__CPROVER_return_value) == value));
BUILD_INT(cbor_build_uint8, uint8_t, CBOR_INT_8, CBOR_TYPE_UINT)
BUILD_INT(cbor_build_uint16, uint16_t, CBOR_INT_16, CBOR_TYPE_UINT)
BUILD_INT(cbor_build_uint32, uint32_t, CBOR_INT_32, CBOR_TYPE_UINT)
BUILD_INT(cbor_build_uint64, uint64_t, CBOR_INT_64, CBOR_TYPE_UINT)
BUILD_INT(cbor_build_negint8, uint8_t, CBOR_INT_8, CBOR_TYPE_NEGINT)
BUILD_INT(cbor_build_negint16, uint16_t, CBOR_INT_16, CBOR_TYPE_NEGINT)
BUILD_INT(cbor_build_negint32, uint32_t, CBOR_INT_32, CBOR_TYPE_NEGINT)
BUILD_INT(cbor_build_negint64, uint64_t, CBOR_INT_64, CBOR_TYPE_NEGINT)

/* ---------------------------------------------------------------- floats and simple values */
#define ARG_F32_BITS(v) (((union { float as_f; uint32_t as_u; }){.as_f = (v)}).as_u)
#define ARG_F64_BITS(v) (((union { double as_d; uint64_t as_u; }){.as_d = (v)}).as_u)
void cbor_set_float2(cbor_item_t *item, float value)
__CPROVER_requires(FLOAT_CTRL_VALID(item) && FL_WIDTH(item) == CBOR_FLOAT_16)
__CPROVER_assigns(__CPROVER_object_from(PAYLOAD(item)))
__CPROVER_ensures(F32_AT(PAYLOAD(item)) == ARG_F32_BITS(value));
void cbor_set_float4(cbor_item_t *item, float value)
__CPROVER_requires(FLOAT_CTRL_VALID(item) && FL_WIDTH(item) == CBOR_FLOAT_32)
__CPROVER_assigns(__CPROVER_object_from(PAYLOAD(item)))
__CPROVER_ensures(F32_AT(PAYLOAD(item)) == ARG_F32_BITS(value));
void cbor_set_float8(cbor_item_t *item, double value)
__CPROVER_requires(FLOAT_CTRL_VALID(item) && FL_WIDTH(item) == CBOR_FLOAT_64)
__CPROVER_assigns(__CPROVER_object_from(PAYLOAD(item)))
__CPROVER_ensures(F64_AT(PAYLOAD(item)) == ARG_F64_BITS(value));
void cbor_set_ctrl(cbor_item_t *item, uint8_t value)
__CPROVER_requires(ITEM_RW(item) && item->type == CBOR_TYPE_FLOAT_CTRL && FL_WIDTH(item) == CBOR_FLOAT_0)
__CPROVER_assigns(item->metadata.float_ctrl_metadata.ctrl)
__CPROVER_ensures(item->metadata.float_ctrl_metadata.ctrl == value);
void cbor_set_bool(cbor_item_t *item, bool value)
__CPROVER_requires(ITEM_RW(item) && (IS_CTRL_VAL(item, CBOR_CTRL_FALSE) || IS_CTRL_VAL(item, CBOR_CTRL_TRUE)))
__CPROVER_assigns(item->metadata.float_ctrl_metadata.ctrl)
__CPROVER_ensures(item->metadata.float_ctrl_metadata.ctrl == (value ? CBOR_CTRL_TRUE : CBOR_CTRL_FALSE));

#define RET __CPROVER_return_value
#define CTRL_ITEM(r, v) ((r)->type == CBOR_TYPE_FLOAT_CTRL && FL_WIDTH(r) == CBOR_FLOAT_0 && \
                         (r)->metadata.float_ctrl_metadata.ctrl == (v))
cbor_item_t *cbor_new_ctrl(void) ONE_BLOCK_CTOR(sizeof(cbor_item_t),
    CTRL_ITEM(RET, CBOR_CTRL_NONE));
cbor_item_t *cbor_new_null(void) ONE_BLOCK_CTOR(sizeof(cbor_item_t),
    CTRL_ITEM(RET, CBOR_CTRL_NULL));
cbor_item_t *cbor_new_undef(void) ONE_BLOCK_CTOR(sizeof(cbor_item_t),
    CTRL_ITEM(RET, CBOR_CTRL_UNDEF));
cbor_item_t *cbor_build_bool(bool value) ONE_BLOCK_CTOR(sizeof(cbor_item_t),
    CTRL_ITEM(RET, value ? CBOR_CTRL_TRUE : CBOR_CTRL_FALSE));
cbor_item_t *cbor_build_ctrl(uint8_t value) ONE_BLOCK_CTOR(sizeof(cbor_item_t),
    CTRL_ITEM(RET, value));

#define FLOAT_ITEM(r, w) ((r)->type == CBOR_TYPE_FLOAT_CTRL && FL_WIDTH(r) == (w) && \
                          (r)->data == (unsigned char *)(r) + sizeof(cbor_item_t))
cbor_item_t *cbor_new_float2(void) ONE_BLOCK_CTOR(sizeof(cbor_item_t) + 4,
    FLOAT_ITEM(RET, CBOR_FLOAT_16));
cbor_item_t *cbor_new_float4(void) ONE_BLOCK_CTOR(sizeof(cbor_item_t) + 4,
    FLOAT_ITEM(RET, CBOR_FLOAT_32));
cbor_item_t *cbor_new_float8(void) ONE_BLOCK_CTOR(sizeof(cbor_item_t) + 8,
    FLOAT_ITEM(RET, CBOR_FLOAT_64));
cbor_item_t *cbor_build_float2(float value) ONE_BLOCK_CTOR(sizeof(cbor_item_t) + 4,
    (FLOAT_ITEM(RET, CBOR_FLOAT_16) && F32_AT(PAYLOAD(RET)) == ARG_F32_BITS(value)));
cbor_item_t *cbor_build_float4(float value) ONE_BLOCK_CTOR(sizeof(cbor_item_t) + 4,
    (FLOAT_ITEM(RET, CBOR_FLOAT_32) && F32_AT(PAYLOAD(RET)) == ARG_F32_BITS(value)));
cbor_item_t *cbor_build_float8(double value) ONE_BLOCK_CTOR(sizeof(cbor_item_t) + 8,
    (FLOAT_ITEM(RET, CBOR_FLOAT_64) && F64_AT(PAYLOAD(RET)) == ARG_F64_BITS(value)));

/* ---------------------------------------------------------------- strings and byte strings */
cbor_item_t *cbor_new_definite_bytestring(void) ONE_BLOCK_CTOR(sizeof(cbor_item_t),
    (RET->type == CBOR_TYPE_BYTESTRING && BS_META(RET).type == _CBOR_METADATA_DEFINITE &&
                                   BS_META(RET).length == 0 && RET->data == NULL));
cbor_item_t *cbor_new_definite_string(void) ONE_BLOCK_CTOR(sizeof(cbor_item_t),
    (RET->type == CBOR_TYPE_STRING && ST_META(RET).type == _CBOR_METADATA_DEFINITE &&
                                   ST_META(RET).length == 0 && ST_META(RET).codepoint_count == 0 && RET->data == NULL));

/* two-block constructors: node + chunk bookkeeping; if the second request is refused the first block is released */
#define TWO_BLOCK_CTOR(props)                                                                   \
  __CPROVER_requires(ALLOC_MODEL_BOUND)                                                         \
  __CPROVER_assigns(ALLOC_GHOSTS)                                                               \
  __CPROVER_ensures(g_realloc_calls == __CPROVER_old(g_realloc_calls))                         \
  __CPROVER_ensures(RET == NULL ==> (g_live == __CPROVER_old(g_live) && g_refused))             \
  __CPROVER_ensures(RET == NULL || (__CPROVER_is_fresh(RET, sizeof(cbor_item_t)) && RET->refcount == 1 && (props))) \
  __CPROVER_ensures(RET == NULL || (g_live == __CPROVER_old(g_live) + 2 &&                      \
                                     g_malloc_calls == __CPROVER_old(g_malloc_calls) + 2 &&     \
                                     g_free_calls == __CPROVER_old(g_free_calls)))
#define EMPTY_CHUNKS(r) (CHUNKS(r)->chunk_count == 0 && CHUNKS(r)->chunk_capacity == 0 && CHUNKS(r)->chunks == NULL)
cbor_item_t *cbor_new_indefinite_bytestring(void)
TWO_BLOCK_CTOR(RET->type == CBOR_TYPE_BYTESTRING && BS_META(RET).type == _CBOR_METADATA_INDEFINITE &&
               __CPROVER_is_fresh(RET->data, sizeof(struct cbor_indefinite_string_data)) && EMPTY_CHUNKS(RET));
cbor_item_t *cbor_new_indefinite_string(void)
TWO_BLOCK_CTOR(RET->type == CBOR_TYPE_STRING && ST_META(RET).type == _CBOR_METADATA_INDEFINITE &&
               __CPROVER_is_fresh(RET->data, sizeof(struct cbor_indefinite_string_data)) && EMPTY_CHUNKS(RET));

void cbor_bytestring_set_handle(cbor_item_t *item, cbor_mutable_data CBOR_RESTRICT_POINTER data, size_t length)
__CPROVER_requires(ITEM_RW(item) && item->type == CBOR_TYPE_BYTESTRING && BS_META(item).type == _CBOR_METADATA_DEFINITE)
__CPROVER_assigns(item->data, BS_META(item).length)
__CPROVER_ensures(item->data == data && BS_META(item).length == length);

/* C16: data and length stored unchanged; code point count = strict UTF-8 count, or 0 for invalid text */
void cbor_string_set_handle(cbor_item_t *item, cbor_mutable_data CBOR_RESTRICT_POINTER data, size_t length)
__CPROVER_requires(ITEM_RW(item) && item->type == CBOR_TYPE_STRING && ST_META(item).type == _CBOR_METADATA_DEFINITE)
__CPROVER_requires(length <= VERIF_MAXOBJ && __CPROVER_r_ok(data, length))
__CPROVER_requires(g_u_src == data && g_u_len == length && g_u_calls == 0 && g_u_count == 0 && g_u_state == U_START)
__CPROVER_assigns(item->data, ST_META(item).length, ST_META(item).codepoint_count, g_u)
__CPROVER_ensures(item->data == data && ST_META(item).length == length)
__CPROVER_ensures(ST_META(item).codepoint_count == (g_u_state == U_START ? g_u_count : 0))
__CPROVER_ensures(g_u_state == U_REJECT || g_u_calls == length);

/* ---------------------------------------------------------------- tags */
cbor_item_t *cbor_new_tag(uint64_t value) ONE_BLOCK_CTOR(sizeof(cbor_item_t),
    (RET->type == CBOR_TYPE_TAG && TG_META(RET).value == value && TG_META(RET).tagged_item == NULL && RET->data == NULL));

/* documented: does not release a previously set item (tags.h) */
void cbor_tag_set_item(cbor_item_t *tag, cbor_item_t *tagged_item)
__CPROVER_requires(TAG_VALID(tag) && ITEM_RW(tagged_item) && tagged_item->refcount < SIZE_MAX && tag != tagged_item)
__CPROVER_assigns(TG_META(tag).tagged_item, tagged_item->refcount)
__CPROVER_ensures(TG_META(tag).tagged_item == tagged_item && tagged_item->refcount == __CPROVER_old(tagged_item->refcount) + 1);

/* hands out a NEW reference to the tagged item */
cbor_item_t *cbor_tag_item(const cbor_item_t *tag)
__CPROVER_requires(TAG_VALID(tag) && ITEM_RW(TG_META(tag).tagged_item) && TG_META(tag).tagged_item->refcount < SIZE_MAX)
__CPROVER_assigns(TG_META(tag).tagged_item->refcount)
__CPROVER_ensures(RET == TG_META(tag).tagged_item && RET->refcount == __CPROVER_old(TG_META(tag).tagged_item->refcount) + 1);

cbor_item_t *cbor_build_tag(uint64_t value, cbor_item_t *item)
__CPROVER_requires(ALLOC_MODEL_BOUND && ITEM_RW(item) && item->refcount < SIZE_MAX)
__CPROVER_assigns(ALLOC_GHOSTS, item->refcount)
__CPROVER_ensures(g_malloc_calls == __CPROVER_old(g_malloc_calls) + 1 && g_realloc_calls == __CPROVER_old(g_realloc_calls) &&
                  g_free_calls == __CPROVER_old(g_free_calls))
__CPROVER_ensures(RET == NULL ==> (g_live == __CPROVER_old(g_live) && item->refcount == __CPROVER_old(item->refcount) && g_refused))
__CPROVER_ensures(RET == NULL || (__CPROVER_is_fresh(RET, sizeof(cbor_item_t)) &&
                                   RET->refcount == 1 && RET->type == CBOR_TYPE_TAG && TG_META(RET).value == value &&
                                   TG_META(RET).tagged_item == item))
__CPROVER_ensures(RET == NULL || (g_live == __CPROVER_old(g_live) + 1 && item->refcount == __CPROVER_old(item->refcount) + 1));
#endif
