/* array operations that release an element (need the cbor_decref contracts) */
#ifndef VERIF_C_ARRAYS2_H
#define VERIF_C_ARRAYS2_H
#include "contracts/refcount.h"

#define SLOT_OR_NULL(item, index) ((index) < AR_META(item).end_ptr ? AR_SLOTS(item)[index] : (cbor_item_t *)NULL)

/* replace below size: the old element loses the container's reference (released if it was the last), the new
 * one gains one; at or above size: refused, nothing touched */
bool cbor_array_replace(cbor_item_t *item, size_t index, cbor_item_t *value)
__CPROVER_requires(ALLOC_MODEL_BOUND && ARRAY_VALID(item) && ITEM_RW(value) && value->refcount < SIZE_MAX && value != item)
__CPROVER_requires(index < AR_META(item).end_ptr ==>
                   (ITEM_RW(AR_SLOTS(item)[index]) && AR_SLOTS(item)[index]->refcount >= 1 &&
                    AR_SLOTS(item)[index] != item && HEAP_BLOCK(AR_SLOTS(item)[index]) &&
                    (AR_SLOTS(item)[index] != value || value->refcount >= 2)))
__CPROVER_requires(!g_s.valid || index >= AR_META(item).end_ptr || AR_SLOTS(item)[index] == g_s.item)
__CPROVER_assigns(ALLOC_GHOSTS, value->refcount)
__CPROVER_assigns(index < AR_META(item).end_ptr : AR_SLOTS(item)[index], AR_SLOTS(item)[index]->refcount)
/* the released element's subtree (hereditary, A1) is not part of this node-level frame */
__CPROVER_frees(index < AR_META(item).end_ptr && AR_SLOTS(item)[index]->refcount == 1 : AR_SLOTS(item)[index])
__CPROVER_ensures(RET == (index < OLD(AR_META(item).end_ptr)))
__CPROVER_ensures(RET ==> AR_SLOTS(item)[index] == value)
__CPROVER_ensures((RET && g_s.valid) ==> value->refcount == OLD(value->refcount) + (g_s.item == value ? 0 : 1))
__CPROVER_ensures(!RET ==> (value->refcount == OLD(value->refcount) && g_free_calls == OLD(g_free_calls)))
__CPROVER_ensures(AR_META(item).end_ptr == OLD(AR_META(item).end_ptr) && item->data == OLD(item->data) &&
                  AR_META(item).allocated == OLD(AR_META(item).allocated));

#endif
