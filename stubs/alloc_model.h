/* Allocator model: the "configured allocator" of C06/C13/C20 (DESIGN 3.4).
 * Every request may be refused independently (nondeterministic), which subsumes the
 * "k-th alone" and "k-th and all later" fault schedules.  Ghost counters record traffic. */
#ifndef VERIF_ALLOC_MODEL_H
#define VERIF_ALLOC_MODEL_H
#include <stdbool.h>
#include <stddef.h>
#include <stdint.h>

/* largest object the model ever grants: a limit of CBMC's object/offset pointer encoding,
 * stated in every evidence file (not an unwinding bound) */
#define VERIF_MAXOBJ ((size_t)1 << 40)

/* one struct = one assigns target (DFCC's frame-inclusion checks are quadratic in the number of targets) */
struct verif_alloc_ghost {
  size_t malloc_calls, realloc_calls, free_calls;
  size_t last_req; /* size of the most recent malloc/realloc request */
  size_t live;     /* net number of live blocks obtained through the model (exact accounting: leaks) */
  bool refused;    /* some request was refused */
};
extern struct verif_alloc_ghost g_a;
#define g_malloc_calls g_a.malloc_calls
#define g_realloc_calls g_a.realloc_calls
#define g_free_calls g_a.free_calls
#define g_last_req g_a.last_req
#define g_live g_a.live
#define g_refused g_a.refused
extern bool g_alloc_forbidden; /* set by "allocates nothing" proofs: any allocator call fails an obligation */

size_t nondet_size_for_live(void);
void *v_malloc(size_t n);
void *v_realloc(void *p, size_t n);
void v_free(void *p);
void verif_bind_allocator(void);

/* called first thing in every harness body (DFCC havocs non-const statics) */
/* the ghost variables every allocating contract lists in its frame */
#define ALLOC_GHOSTS g_a

#define VERIF_ALLOC_RESET()                                          \
  do {                                                               \
    g_malloc_calls = 0; g_realloc_calls = 0; g_free_calls = 0;       \
    g_last_req = 0; g_refused = false; g_alloc_forbidden = false;    \
    g_live = nondet_size_for_live();                                 \
    __CPROVER_assume(g_live <= ((size_t)1 << 40));                   \
  } while (0)
#endif
