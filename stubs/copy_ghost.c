#include "contracts/copy.h"
struct verif_copy_ghost g_c;
struct verif_copy_const g_cc;
struct verif_copy_res g_cq;
struct verif_cstr g_cs; /* ghost record of the C string handed to cbor_build_string */
size_t g_j;            /* second ghost index: an arbitrary position before the terminating NUL */
