/* Relational lemmas over the contract of cbor_stream_decode (C09 prefix determinism and progress, C14 / C08
 * independence from trailing bytes).  cbor_stream_decode is REPLACED by its contract (discharged by proof
 * stream_decode_contract), so these are lemmas about every function satisfying that contract. */
#include <stdlib.h>
#include "cbor.h"
#include "stubs/alloc_model.h"
#include "stubs/recorder.h"

size_t nondet_size(void);
void *nondet_ptr(void);

static struct cbor_callbacks *mk_table(void) {
  struct cbor_callbacks *t = malloc(sizeof(*t));
  __CPROVER_assume(t != NULL);
  VERIF_REC_TABLE_INIT(*t);
  return t;
}
/* same callback, same arguments (only the arguments that callback has) */
#define HAS_ARG(s) ((s) <= EV_NEGINT8 || (s) == EV_BSTR || (s) == EV_TSTR || (s) == EV_ARRAY || (s) == EV_MAP || (s) == EV_TAG)
#define SAME_EVENT(a, b)                                                                            \
  ((a).count == (b).count && (a).slot == (b).slot && (a).ctx == (b).ctx &&                          \
   (!HAS_ARG((a).slot) || (a).arg == (b).arg) &&                                                    \
   ((a).slot != EV_FLOAT4 || (a).fbits == (b).fbits) && ((a).slot != EV_FLOAT8 || (a).dbits == (b).dbits) && \
   ((a).slot != EV_FLOAT2 || (a).fbits == (b).fbits || (spec_f32_is_nan((a).fbits) && spec_f32_is_nan((b).fbits))) && \
   ((a).slot != EV_BOOL || (a).boolean == (b).boolean))

#if defined(H_PREFIX)
/* one buffer, three lengths n <= m <= k: what a client sees while bytes arrive */
void harness(void) {
  VERIF_ALLOC_RESET();
  size_t k = nondet_size(), m = nondet_size(), n = nondet_size();
  __CPROVER_assume(n <= m && m <= k && k <= VERIF_MAXOBJ);
  unsigned char *buf = malloc(k);
  __CPROVER_assume(buf != NULL);
  struct cbor_callbacks *t = mk_table();
  void *ctx = nondet_ptr();

  VERIF_REC_RESET();
  struct cbor_decoder_result rn = cbor_stream_decode(buf, n, t, ctx);
  struct verif_event_ghost en = g_ev;
  VERIF_REC_RESET();
  struct cbor_decoder_result rm = cbor_stream_decode(buf, m, t, ctx);
  struct verif_event_ghost em = g_ev;
  VERIF_REC_RESET();
  struct cbor_decoder_result rk = cbor_stream_decode(buf, k, t, ctx);
  struct verif_event_ghost ek = g_ev;

  /* L1 prefix determinism */
  if (rn.status == CBOR_DECODER_FINISHED)
    __CPROVER_assert(rm.status == CBOR_DECODER_FINISHED && rm.read == rn.read && SAME_EVENT(en, em) &&
                     ((en.slot != EV_BSTR && en.slot != EV_TSTR) || en.ptr == em.ptr),
                     "C09: more buffered bytes never change an already complete event");
  if (rm.status == CBOR_DECODER_FINISHED && rm.read <= n)
    __CPROVER_assert(rn.status == CBOR_DECODER_FINISHED && rn.read == rm.read && SAME_EVENT(en, em),
                     "C09,C14: an event is determined by the bytes it reports as read");
  if (n >= 1)
    __CPROVER_assert((rn.status == CBOR_DECODER_ERROR) == (rm.status == CBOR_DECODER_ERROR),
                     "C09: ERROR depends on the initial byte only");
  /* L2 progress: each wait asks for strictly more than is buffered and never for more than the item occupies */
  if (rn.status == CBOR_DECODER_NEDATA) {
    __CPROVER_assert(rn.required > n, "C09: each wait asks for strictly more bytes than are buffered");
    if (m >= rn.required) {
      __CPROVER_assert(rm.status == CBOR_DECODER_FINISHED ||
                       (rm.status == CBOR_DECODER_NEDATA && rm.required > rn.required) ||
                       (rm.status == CBOR_DECODER_ERROR && n == 0),
                       "C09: with `required` bytes buffered the next call delivers the event or asks for strictly more "
                       "(or rejects the initial byte it had not seen yet)");
    }
    if (rk.status == CBOR_DECODER_FINISHED)
      __CPROVER_assert(rn.required <= rk.read, "C09: never asks for more than the pending item really occupies");
  }
  __CPROVER_assert(!(rn.status == CBOR_DECODER_NEDATA && rm.status == CBOR_DECODER_NEDATA && rk.status == CBOR_DECODER_FINISHED),
                   "COVER head wait, payload wait, delivery");
  __CPROVER_assert(!(rn.status == CBOR_DECODER_FINISHED && n < m), "COVER complete event with trailing bytes");
  __CPROVER_assert(!(rn.status == CBOR_DECODER_ERROR), "COVER error");
  (void)ek;
}
#elif defined(H_INDEPENDENCE)
/* two different buffers that agree on the head: a FINISHED result does not depend on anything beyond `read` */
void harness(void) {
  VERIF_ALLOC_RESET();
  size_t na = nondet_size(), nb = nondet_size();
  __CPROVER_assume(na <= VERIF_MAXOBJ && nb <= VERIF_MAXOBJ);
  unsigned char *a = malloc(na), *b = malloc(nb);
  __CPROVER_assume(a != NULL && b != NULL);
  struct cbor_callbacks *t = mk_table();
  void *ctx = nondet_ptr();
  VERIF_REC_RESET();
  struct cbor_decoder_result ra = cbor_stream_decode(a, na, t, ctx);
  struct verif_event_ghost ea = g_ev;
  if (ra.status != CBOR_DECODER_FINISHED) return;
  /* b agrees with a on the bytes a's result reports as read (the head is at most 9 bytes; payload bytes are
   * handed over by pointer, not inspected) and is at least that long; everything after is arbitrary */
  __CPROVER_assume(nb >= ra.read);
  for (unsigned i = 0; i < 9; i++)
    if (i < ra.read) __CPROVER_assume(a[i] == b[i]);
  VERIF_REC_RESET();
  struct cbor_decoder_result rb = cbor_stream_decode(b, nb, t, ctx);
  __CPROVER_assert(rb.status == CBOR_DECODER_FINISHED && rb.read == ra.read && SAME_EVENT(ea, g_ev),
                   "C08,C14: a FINISHED result does not depend on any byte beyond those it reports as read");
  if (ea.slot == EV_BSTR || ea.slot == EV_TSTR)
    __CPROVER_assert((ea.ptr - a) == (g_ev.ptr - b), "C14: payload at the same offset");
  __CPROVER_assert(!(nb > ra.read && na == ra.read), "COVER trailing garbage after the item");
  __CPROVER_assert(!(ea.slot == EV_TSTR && ea.arg > 30), "COVER string with payload");
}
#endif
