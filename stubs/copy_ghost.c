#include "contracts/copy.h"
struct verif_copy_ghost g_c;
struct verif_copy_const g_cc;
struct verif_copy_res g_cq;
