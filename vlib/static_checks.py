"""Supporting static facts (DESIGN C13, C17): scans of the compiled objects / goto symbol table."""
CHECKS = []


def run(s):
    return s["fn"](s)
