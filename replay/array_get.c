/* Native replay for cbor_array_get out-of-range: argv in_index=... (array of 2 members, capacity 2 or 4).
 * The documented behaviour (arrays.h) is NULL on boundary violation, without touching memory. */
#include <stdio.h>
#include <stdlib.h>
#include <string.h>
#include "cbor.h"
static unsigned long long arg(int argc, char **argv, const char *k, unsigned long long d) {
  size_t n = strlen(k);
  for (int i = 1; i < argc; i++)
    if (!strncmp(argv[i], k, n) && argv[i][n] == '=') return strtoull(argv[i] + n + 1, 0, 0);
  return d;
}
int main(int argc, char **argv) {
  size_t index = arg(argc, argv, "in_index", 2);
  cbor_item_t *arr = cbor_new_definite_array(2);
  cbor_item_t *a = cbor_build_uint8(1), *b = cbor_build_uint8(2);
  (void)cbor_array_push(arr, a); (void)cbor_array_push(arr, b);
  if (index < 2) index = 2;            /* replay the boundary violation */
  if (index > 1000000) index = 1000000; /* keep the wild read inside the address space for the report */
  cbor_item_t *r = cbor_array_get(arr, index); /* ASan reports the out-of-bounds read here */
  printf("cbor_array_get(size 2, index %zu) = %p\n", index, (void *)r);
  int bad = r != NULL;
  if (bad) printf("VIOLATED: out-of-range index must return NULL\n");
  cbor_decref(&a); cbor_decref(&b); cbor_decref(&arr);
  return bad ? 3 : 0;
}
