/* Harnesses for src/cbor/internal/memory_utils.c: all operands symbolic over all of size_t. */
#include <stdlib.h>
#include "cbor/common.h"
#include "cbor/internal/memory_utils.h"
#include "stubs/alloc_model.h"

size_t nondet_size(void);

#if defined(H_HIGHEST_BIT)
void harness(void) {
  size_t in_a = nondet_size();
  size_t r = _cbor_highest_bit(in_a);
  __CPROVER_assert(r != 64, "COVER top bit set");
  __CPROVER_assert(r != 0, "COVER zero");
}
#elif defined(H_SAFE_TO_MULTIPLY)
void harness(void) {
  size_t in_a = nondet_size(), in_b = nondet_size();
  bool r = _cbor_safe_to_multiply(in_a, in_b);
  __CPROVER_assert(!(r && in_a > 1 && in_b > 1), "COVER accepted non-trivial product");
  __CPROVER_assert(r, "COVER refused product");
}
#elif defined(H_SAFE_TO_ADD)
void harness(void) {
  size_t in_a = nondet_size(), in_b = nondet_size();
  bool r = _cbor_safe_to_add(in_a, in_b);
  __CPROVER_assert(!r, "COVER accepted sum");
  __CPROVER_assert(r, "COVER refused sum");
}
#elif defined(H_SIGNALING_ADD)
void harness(void) {
  size_t in_a = nondet_size(), in_b = nondet_size();
  size_t r = _cbor_safe_signaling_add(in_a, in_b);
  __CPROVER_assert(r == 0, "COVER exact sum");
  __CPROVER_assert(!(r == 0 && in_a != 0 && in_b != 0), "COVER wrapped sum signalled");
  __CPROVER_assert(!(r == 0 && in_a == 0), "COVER zero operand");
}
#elif defined(H_ALLOC_MULTIPLE)
void harness(void) {
  VERIF_ALLOC_RESET();
  verif_bind_allocator();
  size_t in_a = nondet_size(), in_b = nondet_size();
  void *r = _cbor_alloc_multiple(in_a, in_b);
  __CPROVER_assert(r == NULL, "COVER granted");
  __CPROVER_assert(!(r == NULL && g_malloc_calls == 0), "COVER guard refused without a request");
  __CPROVER_assert(!(r == NULL && g_malloc_calls == 1), "COVER allocator refused");
}
#elif defined(H_REALLOC_MULTIPLE)
void harness(void) {
  VERIF_ALLOC_RESET();
  verif_bind_allocator();
  size_t in_a = nondet_size(), in_b = nondet_size(), in_old = nondet_size();
  unsigned char *p = NULL;
  if (nondet_size() & 1) {
    __CPROVER_assume(in_old <= VERIF_MAXOBJ);
    p = malloc(in_old);
    __CPROVER_assume(p != NULL);
  }
  size_t k = nondet_size();
  unsigned char oldk = 0;
  if (p != NULL && k < in_old) oldk = p[k];
  void *r = _cbor_realloc_multiple(p, in_a, in_b);
  if (r != NULL) {
    __CPROVER_assert(!__CPROVER_overflow_mult(in_a, in_b), "C20: granted reallocation implies product fits");
    __CPROVER_assert(g_last_req == in_a * in_b, "C20,C12: reallocation request is exactly the product");
    __CPROVER_assert(g_realloc_calls == 1 && g_malloc_calls == 0, "C13: exactly one request, through realloc");
    __CPROVER_assert(__CPROVER_OBJECT_SIZE(r) == in_a * in_b, "C20: granted block has at least n*s bytes");
    if (p != NULL && k < in_old && k < in_a * in_b)
      __CPROVER_assert(((unsigned char *)r)[k] == oldk, "C12: reallocation preserves the common prefix");
  } else {
    __CPROVER_assert(g_realloc_calls <= 1, "C13: at most one request");
    if (__CPROVER_overflow_mult(in_a, in_b))
      __CPROVER_assert(g_realloc_calls == 0, "C20: wrapping product issues no request");
    if (p != NULL && k < in_old)
      __CPROVER_assert(p[k] == oldk, "C06: failed reallocation leaves the old block intact");
  }
  __CPROVER_assert(r == NULL, "COVER granted");
  __CPROVER_assert(!(r == NULL && g_realloc_calls == 0), "COVER guard refused");
  __CPROVER_assert(!(r == NULL && g_realloc_calls == 1), "COVER allocator refused");
  __CPROVER_assert(!(r != NULL && p != NULL), "COVER grow existing block");
}
#endif
#if defined(H_HEADER_SIZE)
size_t _cbor_encoded_header_size(uint64_t size);
void harness(void) {
  uint64_t in_a = nondet_size();
  size_t r = _cbor_encoded_header_size(in_a);
  __CPROVER_assert(r != 9, "COVER 8-byte argument");
}
#endif
