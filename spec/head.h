/* Specification of one CBOR item head, written from RFC 8949 section 3 (and 3.3 for major type 7),
 * restricted to libcbor's documented profile (simple values other than false/true/null/undefined are
 * not supported).  Plain C, no libcbor identifiers: shared by the CBMC contracts and the native replay.
 *
 *   initial byte = major type (high 3 bits) | additional information (low 5 bits)
 *   ai 0..23  : argument is ai itself, head is 1 byte
 *   ai 24..27 : argument in the following 1/2/4/8 bytes, network byte order
 *   ai 28..30 : reserved, not well-formed
 *   ai 31     : indefinite length for major 2..5, "break" for major 7, not well-formed for 0,1,6
 */
#ifndef VERIF_SPEC_HEAD_H
#define VERIF_SPEC_HEAD_H
#include <stdbool.h>
#include <stddef.h>
#include <stdint.h>

/* event kinds = callback slots in declaration order of struct cbor_callbacks (src/cbor/callbacks.h) */
enum spec_event {
  EV_UINT8, EV_UINT16, EV_UINT32, EV_UINT64,
  EV_NEGINT64, EV_NEGINT32, EV_NEGINT16, EV_NEGINT8,
  EV_BSTR_START, EV_BSTR, EV_TSTR, EV_TSTR_START,
  EV_INDEF_ARRAY, EV_ARRAY, EV_INDEF_MAP, EV_MAP,
  EV_TAG, EV_FLOAT2, EV_FLOAT4, EV_FLOAT8,
  EV_UNDEF, EV_NULL, EV_BOOL, EV_BREAK,
  EV_NONE
};

#define SPEC_MAJOR(b0) ((unsigned)(b0) >> 5)
#define SPEC_AI(b0) ((unsigned)(b0) & 31u)

/* true iff the initial byte cannot start a supported, well-formed item */
static inline bool spec_head_invalid(uint8_t b0) {
  unsigned major = SPEC_MAJOR(b0), ai = SPEC_AI(b0);
  if (ai >= 28 && ai <= 30) return true;                              /* reserved */
  if (ai == 31) return major == 0 || major == 1 || major == 6;        /* no indefinite ints/tags */
  if (major == 7) return ai <= 19 || ai == 24;                        /* unassigned / extended simple values: outside the profile */
  return false;
}

/* number of bytes in the head (initial byte + argument bytes); only for valid heads */
static inline size_t spec_head_len(uint8_t b0) {
  unsigned ai = SPEC_AI(b0);
  if (ai < 24 || ai == 31) return 1;
  return (size_t)1 + ((size_t)1 << (ai - 24));
}

/* the argument: immediate, or big-endian from the following bytes (p points at the initial byte) */
static inline uint64_t spec_head_arg(const unsigned char *p) {
  unsigned ai = SPEC_AI(p[0]);
  if (ai < 24) return ai;
  if (ai == 24) return p[1];
  if (ai == 25) return ((uint64_t)p[1] << 8) | p[2];
  if (ai == 26) return ((uint64_t)p[1] << 24) | ((uint64_t)p[2] << 16) | ((uint64_t)p[3] << 8) | p[4];
  if (ai == 27)
    return ((uint64_t)p[1] << 56) | ((uint64_t)p[2] << 48) | ((uint64_t)p[3] << 40) | ((uint64_t)p[4] << 32) |
           ((uint64_t)p[5] << 24) | ((uint64_t)p[6] << 16) | ((uint64_t)p[7] << 8) | p[8];
  return 0;
}

/* which event a valid head produces */
static inline enum spec_event spec_head_event(uint8_t b0) {
  unsigned major = SPEC_MAJOR(b0), ai = SPEC_AI(b0);
  switch (major) {
    case 0: return ai <= 24 ? EV_UINT8 : ai == 25 ? EV_UINT16 : ai == 26 ? EV_UINT32 : EV_UINT64;
    case 1: return ai <= 24 ? EV_NEGINT8 : ai == 25 ? EV_NEGINT16 : ai == 26 ? EV_NEGINT32 : EV_NEGINT64;
    case 2: return ai == 31 ? EV_BSTR_START : EV_BSTR;
    case 3: return ai == 31 ? EV_TSTR_START : EV_TSTR;
    case 4: return ai == 31 ? EV_INDEF_ARRAY : EV_ARRAY;
    case 5: return ai == 31 ? EV_INDEF_MAP : EV_MAP;
    case 6: return EV_TAG;
    default:
      return ai == 20 || ai == 21 ? EV_BOOL : ai == 22 ? EV_NULL : ai == 23 ? EV_UNDEF :
             ai == 25 ? EV_FLOAT2 : ai == 26 ? EV_FLOAT4 : ai == 27 ? EV_FLOAT8 : EV_BREAK;
  }
}

/* does the head carry a payload of `argument` bytes (definite strings)? */
static inline bool spec_head_has_payload(uint8_t b0) {
  unsigned major = SPEC_MAJOR(b0);
  return (major == 2 || major == 3) && SPEC_AI(b0) != 31;
}

/* ---- encoding side (RFC 8949 section 3): the head for (major, argument) ---- */

/* argument bytes of the shortest ("preferred") head for value v: 0 (immediate), 1, 2, 4 or 8 */
static inline unsigned spec_shortest_argbytes(uint64_t v) {
  return v <= 23 ? 0u : v <= 0xffu ? 1u : v <= 0xffffu ? 2u : v <= 0xffffffffu ? 4u : 8u;
}

/* k-th byte (k = 0 is the initial byte) of the head with the given major type, number of argument
 * bytes (0 = immediate, requires v <= 23) and argument v, big-endian */
static inline uint8_t spec_head_byte(unsigned major, unsigned argbytes, uint64_t v, unsigned k) {
  if (k == 0)
    return (uint8_t)((major << 5) |
                     (argbytes == 0 ? (unsigned)v : argbytes == 1 ? 24u : argbytes == 2 ? 25u : argbytes == 4 ? 26u : 27u));
  return (uint8_t)(v >> (8u * (argbytes - k)));
}

/* IEEE 754 binary16 -> binary32 bit pattern, by integer manipulation only (RFC 8949 Appendix D semantics).
 * NaNs map to some NaN (callers compare NaN-ness, not payload). */
static inline uint32_t spec_half_to_float_bits(uint16_t h) {
  uint32_t sign = (uint32_t)(h & 0x8000u) << 16;
  uint32_t exp = (h >> 10) & 0x1fu;
  uint32_t mant = h & 0x3ffu;
  if (exp == 31) return sign | 0x7f800000u | (mant << 13);           /* inf / NaN */
  if (exp != 0) return sign | ((exp + 112u) << 23) | (mant << 13);   /* normal: rebias 15 -> 127 */
  if (mant == 0) return sign;                                        /* zero */
  /* subnormal half = mant * 2^-24 with mant in 1..1023: normalise so that bit 10 is the implicit one */
  unsigned top = 31u - (unsigned)__builtin_clz(mant); /* index of the highest set bit, 0..9 */
  unsigned s = 10u - top;                             /* 1..10 */
  return sign | ((113u - s) << 23) | (((mant << s) & 0x3ffu) << 13);
}

static inline bool spec_f32_is_nan(uint32_t b) { return (b & 0x7f800000u) == 0x7f800000u && (b & 0x007fffffu) != 0; }
static inline bool spec_f64_is_nan(uint64_t b) {
  return (b & 0x7ff0000000000000ull) == 0x7ff0000000000000ull && (b & 0x000fffffffffffffull) != 0;
}
#endif
