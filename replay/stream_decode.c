/* Native replay for the cbor_stream_decode contract: argv = <size> <b0> <b1> ... (hex bytes).
 * Runs the real function on an exactly-sized heap buffer (ASan red zones) with the recording table and
 * evaluates the same specification (spec/head.h).  exit 0 = contract holds on this input, 3 = violated. */
#include <stdio.h>
#include <stdlib.h>
#include <string.h>
#include "cbor.h"
#include "stubs/recorder.h"
#include "stubs/recorder.c"

static int fails = 0;
#define CHECK(c, msg) do { if (!(c)) { printf("CONTRACT VIOLATED: %s\n", msg); fails++; } } while (0)

static int run(size_t n, const unsigned char *lead, size_t nlead) {
  unsigned char *buf = malloc(n ? n : 1);
  if (!buf) return -1;
  unsigned char *p = buf;
  if (n == 0) { free(buf); p = buf = malloc(1); /* size-0 view */ }
  memset(buf, 0, n ? n : 1);
  memcpy(buf, lead, nlead < n ? nlead : n);
  struct cbor_callbacks t;
  VERIF_REC_TABLE_INIT(t);
  VERIF_REC_RESET();
  int ctx;
  struct cbor_decoder_result r = cbor_stream_decode(p, n, &t, &ctx);
  printf("size=%zu b0=%02x status=%d read=%zu required=%zu callbacks=%u slot=%d arg=%llu\n", n, n ? p[0] : 0,
         (int)r.status, r.read, r.required, g_ev_count, g_ev_slot, (unsigned long long)g_ev_arg);
  int inval = n >= 1 && spec_head_invalid(p[0]);
  CHECK((r.status == CBOR_DECODER_ERROR) == inval, "ERROR iff reserved/unsupported initial byte");
  if (r.status == CBOR_DECODER_ERROR) CHECK(g_ev_count == 0 && r.read == 0 && r.required == 0, "ERROR: no callback, read 0");
  if (r.status == CBOR_DECODER_NEDATA) {
    CHECK(g_ev_count == 0 && r.read == 0, "NEDATA: no callback, read 0");
    CHECK(r.required > n, "NEDATA: required strictly greater than the buffer length");
    if (n == 0) CHECK(r.required == 1, "NEDATA on empty buffer asks for 1 byte");
    else if (!inval) {
      size_t hl = spec_head_len(p[0]);
      if (n < hl) CHECK(r.required == hl, "NEDATA inside the head asks for the head");
      else {
        unsigned char tmp[9] = {0}; memcpy(tmp, p, hl);
        CHECK(spec_head_has_payload(p[0]) && r.required >= hl && r.required - hl <= spec_head_arg(tmp),
              "NEDATA: required no greater than head + payload");
      }
    }
  }
  if (r.status == CBOR_DECODER_FINISHED) {
    unsigned char tmp[9] = {0}; size_t hl = spec_head_len(p[0]); memcpy(tmp, p, hl < n ? hl : n);
    CHECK(g_ev_count == 1 && g_ev_ctx == &ctx && r.required == 0, "FINISHED: exactly one callback");
    CHECK(g_ev_slot == (int)spec_head_event(p[0]), "FINISHED: callback of the matching kind");
    CHECK(r.read <= n && r.read == hl + (spec_head_has_payload(p[0]) ? spec_head_arg(tmp) : 0), "FINISHED: read = head (+payload)");
    if (g_ev_slot <= EV_NEGINT8 || g_ev_slot == EV_BSTR || g_ev_slot == EV_TSTR || g_ev_slot == EV_ARRAY ||
        g_ev_slot == EV_MAP || g_ev_slot == EV_TAG)
      CHECK(g_ev_arg == spec_head_arg(tmp), "FINISHED: decoded argument");
    if (g_ev_slot == EV_BSTR || g_ev_slot == EV_TSTR) CHECK(g_ev_ptr == p + hl && hl + g_ev_arg <= n, "payload inside buffer");
    if (g_ev_slot == EV_BOOL) CHECK(g_ev_bool == (p[0] == 0xF5), "bool value");
    if (g_ev_slot == EV_FLOAT4) CHECK(g_ev_fbits == (uint32_t)spec_head_arg(tmp), "float4 bits");
    if (g_ev_slot == EV_FLOAT8) CHECK(g_ev_dbits == spec_head_arg(tmp), "float8 bits");
    if (g_ev_slot == EV_FLOAT2) {
      uint32_t e = spec_half_to_float_bits((uint16_t)spec_head_arg(tmp));
      CHECK(spec_f32_is_nan(e) ? spec_f32_is_nan(g_ev_fbits) : g_ev_fbits == e, "float2 value");
    }
  }
  if (n >= 1 && !inval) {
    unsigned char tmp[9] = {0}; size_t hl = spec_head_len(p[0]); memcpy(tmp, p, hl < n ? hl : n);
    if (n >= hl && (!spec_head_has_payload(p[0]) || spec_head_arg(tmp) <= n - hl))
      CHECK(r.status == CBOR_DECODER_FINISHED, "complete head (+payload) must be FINISHED");
  }
  free(buf);
  return 0;
}

int main(int argc, char **argv) {
  if (argc < 2) return 2;
  unsigned long long n = strtoull(argv[1], 0, 0);
  unsigned char lead[16] = {0};
  size_t nlead = 0;
  for (int i = 2; i < argc && nlead < 16; i++) lead[nlead++] = (unsigned char)strtoul(argv[i], 0, 16);
  size_t cap = (size_t)1 << 26;
  run(n <= cap ? (size_t)n : cap, lead, nlead);
  if (n > cap) printf("note: verifier buffer length %llu capped to %zu for native replay\n", n, cap);
  return fails ? 3 : 0;
}
