/* Native replay for C05 on empty input: the result struct is pre-filled with a sentinel; cbor_load must
 * fill in every field (NODATA, read 0, position 0). */
#include <stdio.h>
#include <stdlib.h>
#include <string.h>
#include "cbor.h"
int main(void) {
  struct cbor_load_result res;
  memset(&res, 0xA5, sizeof res);
  unsigned char *src = malloc(1);
  cbor_item_t *r = cbor_load(src, 0, &res);
  printf("item=%p code=%d read=%zx position=%zx\n", (void *)r, (int)res.error.code, res.read, res.error.position);
  int ok = r == NULL && res.error.code == CBOR_ERR_NODATA && res.read == 0 && res.error.position == 0;
  if (!ok) printf("VIOLATED: a failed cbor_load must fill in every field of the result\n");
  free(src);
  return ok ? 0 : 3;
}
