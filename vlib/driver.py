"""Proof driver: builds goto binaries from /repo's working tree, instruments them with
CBMC's dynamic-frames contract checker (DFCC), runs CBMC, classifies every obligation and
writes evidence.  See DESIGN.md section 2 and 6.

Exit codes of a check: 0 = all obligations discharged (known findings excepted),
1 = violation (VIOLATION line printed), 2 = undecided (tool failure, timeout, vacuity guard).
"""
import threading, json, os, re, shutil, subprocess, sys, tempfile, time, hashlib
from concurrent.futures import ThreadPoolExecutor

VERIF = os.path.dirname(os.path.dirname(os.path.abspath(__file__)))
REPO = os.environ.get("VERIF_REPO", "/repo")
SRC = os.path.join(REPO, "src")

STD_CHECKS = ["--bounds-check", "--pointer-check", "--pointer-overflow-check",
              "--signed-overflow-check", "--undefined-shift-check", "--div-by-zero-check",
              "--pointer-primitive-check", "--no-malloc-may-fail", "--unwinding-assertions"]

REAL_DEFINES = ["-DEIGHT_BYTE_SIZE_T", "-D_CBOR_HAS_BUILTIN_UNREACHABLE",
                "-D_CBOR_HAS_NODISCARD_ATTRIBUTE"]


class Undecided(Exception):
    pass


class LoopsChanged(Undecided):
    """The loop structure of a function with loop contracts changed: the contracts (keyed by ordinal) cannot be
    applied.  The proof is re-run in DEGRADED mode: no loop contracts, every loop unwound a few times without
    unwinding assertions.  States reached that way are real (an under-approximation), so a FAILURE found there is a
    genuine counterexample and is reported as a violation; finding none proves nothing and the result stays UNDECIDED."""
    pass


_LIVE_GROUPS = set()
_LIVE_LOCK = threading.Lock()


def kill_children(*_args):
    """Kill every process group started by sh() that is still alive (signal handler / atexit of bin/check)."""
    with _LIVE_LOCK:
        groups = list(_LIVE_GROUPS)
    for g in groups:
        try:
            os.killpg(g, 9)
        except OSError:
            pass


def sh(cmd, cwd=None, timeout=None, mem_gb=None, stdout=None):
    """Run a command; returns (rc, out, err, seconds).  The child is a process-group leader that dies with this
    process (PR_SET_PDEATHSIG); its peak resident set is taken from wait4()."""
    lim = int(mem_gb * (1 << 30)) if mem_gb else 0

    def pre():
        if lim:
            import resource
            resource.setrlimit(resource.RLIMIT_AS, (lim, lim))
        try:
            import ctypes
            ctypes.CDLL("libc.so.6", use_errno=True).prctl(1, 9)   # PR_SET_PDEATHSIG, SIGKILL
        except Exception:
            pass
    t0 = time.time()
    out_f, err_f = tempfile.TemporaryFile(), tempfile.TemporaryFile()
    p = subprocess.Popen(list(cmd), cwd=cwd, preexec_fn=pre, stdout=out_f, stderr=err_f, start_new_session=True)
    with _LIVE_LOCK:
        _LIVE_GROUPS.add(p.pid)
    deadline = t0 + timeout if timeout else None
    timed_out = False
    delay = 0.01
    try:
        while True:
            pid, status, ru = os.wait4(p.pid, os.WNOHANG)
            if pid:
                break
            if deadline and time.time() > deadline and not timed_out:
                timed_out = True
                try:
                    os.killpg(p.pid, 9)
                except OSError:
                    pass
            time.sleep(delay)
            delay = min(0.25, delay * 1.5)
    finally:
        with _LIVE_LOCK:
            _LIVE_GROUPS.discard(p.pid)
    p.returncode = os.waitstatus_to_exitcode(status)   # keeps Popen's destructor from waiting again
    out_f.seek(0); err_f.seek(0)
    out = out_f.read().decode("utf-8", "replace")
    err = err_f.read().decode("utf-8", "replace")
    out_f.close(); err_f.close()
    if timed_out:
        return -9, out, "TIMEOUT after %ss" % timeout, time.time() - t0
    if mem_gb:
        LAST_RSS[threading.get_ident()] = ru.ru_maxrss / 1048576.0   # kilobytes -> GB
    rc = p.returncode
    if rc < 0:
        rc = -9 if rc in (-9, -6, -11) else rc
    return rc, out, err, time.time() - t0


LAST_RSS = {}


# ------------------------------------------------------------------------------------------
# generated headers (DESIGN 2.2 items 1 and 2)

def cmake_values():
    txt = open(os.path.join(REPO, "CMakeLists.txt")).read()
    vals = {}
    for k in ("CBOR_VERSION_MAJOR", "CBOR_VERSION_MINOR", "CBOR_VERSION_PATCH"):
        m = re.search(r'set\(\s*%s\s+"?([0-9]+)"?\s*\)' % k, txt)
        if not m:
            raise Undecided("cannot parse %s from CMakeLists.txt" % k)
        vals[k] = m.group(1)
    for k in ("CBOR_BUFFER_GROWTH", "CBOR_MAX_STACK_SIZE"):
        m = re.search(r'set\(\s*%s\s+"?([0-9]+)"?' % k, txt)
        if not m:
            raise Undecided("cannot parse %s from CMakeLists.txt" % k)
        vals[k] = m.group(1)
    m = re.search(r'option\(\s*CBOR_PRETTY_PRINTER\s+"[^"]*"\s+(ON|OFF)\s*\)', txt)
    vals["CBOR_PRETTY_PRINTER"] = "1" if (m and m.group(1) == "ON") else "0"
    vals["CBOR_RESTRICT_SPECIFIER"] = "restrict"
    vals["CBOR_INLINE_SPECIFIER"] = ""
    return vals


def gen_headers(dst, stack_symbolic=False):
    vals = cmake_values()
    if stack_symbolic:
        vals["CBOR_MAX_STACK_SIZE"] = "verif_max_stack_size"
    tin = open(os.path.join(SRC, "cbor", "configuration.h.in")).read()
    out = []
    for line in tin.splitlines():
        m = re.match(r"#cmakedefine01\s+(\w+)", line)
        if m:
            line = "#define %s %s" % (m.group(1), vals.get(m.group(1), "0"))
        else:
            def sub(mm):
                if mm.group(1) not in vals:
                    raise Undecided("configuration.h.in uses unknown variable " + mm.group(1))
                return vals[mm.group(1)]
            line = re.sub(r"\$\{(\w+)\}", sub, line)
        out.append(line)
    if stack_symbolic:
        out.insert(2, "#include <stddef.h>\nextern size_t verif_max_stack_size;")
    os.makedirs(os.path.join(dst, "cbor"), exist_ok=True)
    open(os.path.join(dst, "cbor", "configuration.h"), "w").write("\n".join(out) + "\n")
    open(os.path.join(dst, "cbor", "cbor_export.h"), "w").write(
        "#ifndef CBOR_EXPORT_H\n#define CBOR_EXPORT_H\n#define CBOR_EXPORT\n#define CBOR_NO_EXPORT\n"
        "#define CBOR_DEPRECATED\n#endif\n")
    return vals


# ------------------------------------------------------------------------------------------
# obligation classification

SAFETY_CLASSES = ("pointer_dereference", "array_bounds", "overflow", "pointer_arithmetic",
                  "undefined-shift", "division-by-zero", "pointer_primitives", "pointer",
                  "memory-leak", "NaN", "enum-range", "bit_count", "no-body",
                  "float-overflow", "precondition_instance", "recursion")


def classify(prop):
    """Return (kind, tags) for one CBMC result entry.
    kind in: cover, postcondition, precondition, assigns, frees, loop, safety, cbor_assert,
             tagged, dfcc_internal, other."""
    name = prop["property"]
    desc = prop.get("description", "")
    f = prop.get("sourceLocation", {}).get("file", "") or ""
    m = re.match(r"\s*(COVER)\b", desc)
    if m:
        return "cover", []
    m = re.match(r"\s*((?:C[0-9]{2})(?:\s*,\s*C[0-9]{2})*)\s*:", desc)
    if m:
        return "tagged", [t.strip() for t in m.group(1).split(",")]
    if "<builtin-library-__CPROVER_contracts_library>" in f or name.startswith("__CPROVER_contracts"):
        return "dfcc_internal", []
    cls = name.split(".")[-2] if name.count(".") >= 2 else ""
    if cls == "postcondition":
        return "postcondition", []
    if cls == "precondition":
        return "precondition", []
    if cls == "assigns":
        return "assigns", []
    if cls == "frees":
        return "frees", []
    if cls.startswith("loop_") or cls in ("loop_assigns", "loop_invariant_base", "loop_invariant_step",
                                          "loop_decreases", "loop_step_unwinding"):
        return "loop", []
    if cls == "assertion":
        if f.startswith(SRC) or "/src/cbor" in f:
            return "cbor_assert", []
        return "assertion", []
    if cls == "unwind":
        # a failed unwinding assertion says "this loop needs more iterations than the proof's bound": the exploration is
        # incomplete (UNDECIDED), it is not a counterexample to anything
        return "unwind", []
    if cls in SAFETY_CLASSES:
        # safety obligations generated for the text of the SPECIFICATION itself (a pointer sum inside a loop-invariant
        # predicate, an index expression in a harness assertion) say nothing about the library: they are kept apart
        # (kind spec_safety), count for no property and never switch the vacuity guard off
        if f == "<predicate>" or f.startswith(os.path.join(VERIF, "harness")) or f.startswith(os.path.join(VERIF, "contracts")):
            return "spec_safety", []
        return "safety", []
    return "other", []


def attributed(proof, kind, tags, pid):
    """Does obligation of (kind,tags) count for property pid in this proof?"""
    if kind == "tagged":
        # tag_alias: obligations tagged for another property that this property's statement depends on in this proof
        return pid in tags or any(t in tags for t in proof.get("tag_alias", {}).get(pid, ()))
    spec = proof["props"].get(pid)
    if spec is None:
        return False
    if spec == "all":
        return True
    return kind in spec or (kind == "dfcc_internal" and ("safety" in spec or "assigns" in spec))


# ------------------------------------------------------------------------------------------
# building and running one proof

def fingerprint_loops(gb, functions, tmp):
    """Loop fingerprint of the named functions: list of (function, loop ids) from --show-loops."""
    rc, out, err, _ = sh(["goto-instrument", "--show-loops", "--json-ui", gb], cwd=tmp, timeout=120)
    res = {}
    try:
        data = json.loads(out)
    except Exception:
        return res
    for e in data:
        for l in e.get("loops", []):
            nm = l.get("name", "")
            fn = nm.rsplit(".", 1)[0]
            if fn in functions:
                res.setdefault(fn, []).append(nm)
    return res



def gen_auto_twin(proof, tmp):
    """The function under contract became recursive (DFCC refuses that: no_recursive_call).  Generate the declaration of an
    induction-hypothesis twin f__rec carrying a verbatim copy of f's contract, taken from the contract headers."""
    f = proof["auto_twin"]
    rx = re.compile(r"^[A-Za-z_][^\n;{}#]*\b" + re.escape(f) + r"\s*\(", re.M)
    for h in proof.get("contracts", []):
        text = open(os.path.join(VERIF, h)).read()
        m = rx.search(text)
        if not m:
            continue
        depth, i = 0, m.start()
        while i < len(text):
            c = text[i]
            if c == "(":
                depth += 1
            elif c == ")":
                depth -= 1
            elif c == ";" and depth == 0:
                break
            elif c == "{" and depth == 0:
                return None
            i += 1
        decl = text[m.start():i + 1]
        decl = re.sub(r"\b" + re.escape(f) + r"(\s*\()", f + r"__rec\1", decl, count=1)
        out = os.path.join(tmp, "auto_twin.h")
        with open(out, "w") as fh:
            fh.write("/* generated: induction-hypothesis twin of %s (verbatim copy of its contract from %s) */\n%s\n" % (f, h, decl))
        return out
    return None

def build_proof(proof, tmp, log):
    """Returns path of the instrumented goto binary."""
    gen = os.path.join(tmp, "gen")
    gen_headers(gen, stack_symbolic=proof.get("stack_symbolic", False))
    flavour = proof.get("flavour", "dbg")
    defs = list(REAL_DEFINES) + ["-DPJK_LIBCBOR_VERIF"] + ["-D" + d for d in proof.get("defines", [])]
    if flavour == "dbg":
        defs.append("-DDEBUG=1")
    else:
        defs.append("-DNDEBUG")
    incs = ["-I", gen, "-I", SRC, "-I", VERIF]
    includes = []
    for h in proof.get("contracts", []):
        includes += ["-include", os.path.join(VERIF, h)]
    auto_twin = proof.get("auto_twin")
    if auto_twin:
        h = gen_auto_twin(proof, tmp)
        if not h:
            raise Undecided("no contract declaration of %s found to generate the recursion twin from" % auto_twin)
        includes += ["-include", h]
    libs = [os.path.join(SRC, f) for f in proof.get("lib", [])]
    for f in libs:
        if not os.path.exists(f):
            raise Undecided("source file missing: " + f)
    if proof.get("extract"):
        # verbatim regions of /repo code wrapped mechanically into functions (vlib/extract.py), regenerated on every run
        from . import extract
        try:
            libs.append(extract.EXTRACTORS[proof["extract"]](SRC, tmp))
        except extract.ExtractionFailed as e:
            raise Undecided("mechanical extraction '%s' failed (rules did not fire; re-derive them): %s" % (proof["extract"], e))
    extra = [os.path.join(VERIF, f) for f in proof.get("stubs", [])]
    harness = os.path.join(VERIF, proof["harness"])
    entry = proof.get("entry", "harness")
    a = os.path.join(tmp, "a.gb")
    twins = proof.get("twins", {})

    def run(cmd, what, timeout=600):
        log.append("$ " + " ".join(cmd))
        rc, out, err, secs = sh(cmd, cwd=tmp, timeout=timeout, mem_gb=16)
        log.append((out + err)[-4000:])
        if rc != 0:
            raise Undecided("%s failed (rc=%s): %s" % (what, rc, (err or out)[-1500:]))
        return out + err

    # stage 1: library translation units straight from /repo/src, compiled to goto objects with the
    # libc allocator names redirected to the trap stubs (DESIGN C13)
    renames = ["-Dmalloc=verif_libc_malloc", "-Dcalloc=verif_libc_calloc",
               "-Drealloc=verif_libc_realloc", "-Dfree=verif_libc_free"]
    objs = []
    for i, f in enumerate(libs):
        o = os.path.join(tmp, "lib%d_%s.o" % (i, os.path.basename(f)[:-2]))
        run(["goto-cc", "-c"] + defs + renames + incs + includes + [f, "-o", o], "goto-cc -c " + os.path.basename(f))
        objs.append(o)
    # stage 2: link with the stubs (allocator model etc., compiled without the renames) and the twin references
    twin_stub = os.path.join(tmp, "twin_refs.c")
    with open(twin_stub, "w") as f:
        f.write("/* generated: makes the declaration-only twins part of the library-stage symbol table */\n")
        for i, t in enumerate(twins.values()):
            f.write("void *verif_twin_ref_%d(void) { return (void*)&%s; }\n" % (i, t))
    trap = [os.path.join(VERIF, "stubs", "libc_trap.c")] if libs else []
    # stage 2: one link of library objects, stubs (compiled without the renames), twin references and harness
    if auto_twin:
        # recursion fallback: the calls of f inside the LIBRARY go to the generated twin f__rec (replaced by its contract =
        # induction hypothesis); the harness is linked afterwards, so its call is the only one reaching the real f
        with open(twin_stub, "a") as f:
            f.write("void *verif_auto_twin_ref(void) { return (void*)&%s__rec; }\n" % auto_twin)
        a0 = os.path.join(tmp, "a0.gb")
        a1 = os.path.join(tmp, "a1.gb")
        run(["goto-cc"] + defs + incs + includes + objs + extra + trap + [twin_stub, "-o", a0], "goto-cc (library link)")
        run(["goto-instrument", "--replace-calls", "%s:%s__rec" % (auto_twin, auto_twin), a0, a1],
            "goto-instrument --replace-calls (generated twin)")
        run(["goto-cc"] + defs + incs + includes + ["--function", entry, a1, harness, "-o", a], "goto-cc (harness link)")
    elif twins:
        a0 = os.path.join(tmp, "a0.gb")
        a1 = os.path.join(tmp, "a1.gb")
        run(["goto-cc"] + defs + incs + includes + ["--function", entry] + objs + extra + trap + [twin_stub, harness, "-o", a0],
            "goto-cc (link)")
        # stage 3 (recursion): every call of f inside the binary goes to the induction-hypothesis twin f__child;
        # the harness calls f__top, which is then bound to the real f (two passes, so the top-level call is
        # the only one that reaches the real function)
        rc_args = []
        for k, v in twins.items():
            rc_args += ["--replace-calls", "%s:%s" % (k, v)]
        out = run(["goto-instrument"] + rc_args + [a0, a1], "goto-instrument --replace-calls (children)")
        rc_args = []
        for k in twins:
            rc_args += ["--replace-calls", "%s__top:%s" % (k, k)]
        out = run(["goto-instrument"] + rc_args + [a1, a], "goto-instrument --replace-calls (top)")
    else:
        run(["goto-cc"] + defs + incs + includes + ["--function", entry] + objs + extra + trap + [twin_stub, harness, "-o", a],
            "goto-cc (link)")

    if proof.get("loops") or proof.get("loop_fingerprint"):
        # also for proofs WITHOUT loop contracts: a loop that is new in the function would otherwise be unwound until the
        # timeout (UNDECIDED); with the fingerprint the degraded bounded mode looks for a counterexample instead
        want = proof.get("loop_fingerprint")
        if want:
            got = fingerprint_loops(a, set(want.keys()), tmp)
            for fn, n in want.items():
                if len(got.get(fn, [])) != n:
                    raise LoopsChanged("loop fingerprint mismatch in %s: expected %d loops, found %d (%s) - "
                                       "loop contracts are keyed by ordinal and must be re-derived"
                                       % (fn, n, len(got.get(fn, [])), got.get(fn)))

    mode = proof.get("mode", "dfcc")
    if mode == "plain":
        return a
    b = os.path.join(tmp, "b.gb")
    cmd = ["goto-instrument", "--dfcc", entry]
    if proof.get("enforce"):
        cmd += ["--enforce-contract", proof["enforce"]]
    for r in proof.get("replace", []):
        cmd += ["--replace-call-with-contract", r]
    if auto_twin:
        cmd += ["--replace-call-with-contract", auto_twin + "__rec"]
    if proof.get("loops"):
        cmd += ["--apply-loop-contracts", "--loop-contracts-file", os.path.join(VERIF, proof["loops"])]
    elif proof.get("inline_loop_contracts"):
        cmd += ["--apply-loop-contracts"]
    cmd += proof.get("instrument_flags", [])
    cmd += [a, b]
    if os.path.exists(b):
        os.remove(b)
    out = run(cmd, "goto-instrument --dfcc", timeout=900)
    if not os.path.exists(b):
        raise Undecided("goto-instrument produced no output: " + out[-1500:])
    return b


def parse_cbmc_json(out):
    try:
        data = json.loads(out)
    except Exception:
        # truncated output (timeout/kill)
        return None, None, []
    results, status, msgs = None, None, []
    for e in data:
        if "result" in e:
            results = e["result"]
        elif "cProverStatus" in e:
            status = e["cProverStatus"]
        elif "messageText" in e:
            msgs.append(e["messageText"])
    return results, status, msgs


def run_cbmc(proof, gb, tmp, log, backend=None, extra=None, timeout=None, ui="xml"):
    flags = list(proof.get("cbmc_flags", STD_CHECKS))
    flags += proof.get("more_flags", [])
    if proof.get("unwindset"):
        flags += ["--unwindset", proof["unwindset"]]
    if proof.get("unwind"):
        flags += ["--unwind", str(proof["unwind"])]
    if proof.get("object_bits"):
        flags += ["--object-bits", str(proof["object_bits"])]
    be = backend or proof.get("backend", "minisat")
    if be == "cadical":
        flags += ["--sat-solver", "cadical"]
    elif be == "kissat":
        flags += ["--external-sat-solver", "kissat"]
    elif be in ("z3", "cvc5"):
        flags += ["--" + be]
    mem = float(os.environ.get("VERIF_MEM_OVERRIDE", 0)) or proof.get("mem_gb", 10)
    if ui == "json":
        # used for single-property trace runs only
        cmd = ["cbmc", gb, "--json-ui"] + flags + (extra or [])
        log.append("$ " + " ".join(cmd))
        rc, out, err, secs = sh(cmd, cwd=tmp, timeout=timeout or proof.get("timeout", 900), mem_gb=mem)
        results, status, msgs = parse_cbmc_json(out)
        return dict(rc=rc, results=results, status=status, msgs=msgs, secs=secs, cmd=" ".join(cmd),
                    rss_gb=LAST_RSS.get(threading.get_ident()), err=err[-2000:], raw_tail=out[-2000:])
    # Verdicts are taken from the XML interface.  The JSON interface embeds a counterexample trace in every failed result
    # (cover points fail by design) and runs out of memory building some of them, which silently truncates the result list.
    # XML results carry no description, so names / descriptions / locations come from --show-properties (same flags, no
    # solving), which also says how many results there must be.
    pcmd = ["cbmc", gb, "--show-properties", "--json-ui"] + flags + (extra or [])
    rc0, pout, perr, _ = sh(pcmd, cwd=tmp, timeout=300, mem_gb=mem)
    props = {}
    try:
        for e in json.loads(pout):
            for q in e.get("properties", []) if isinstance(e, dict) else []:
                props[q["name"]] = q
    except Exception:
        props = {}
    cmd = ["cbmc", gb, "--xml-ui"] + flags + (extra or [])
    log.append("$ " + " ".join(cmd))
    rc, out, err, secs = sh(cmd, cwd=tmp, timeout=timeout or proof.get("timeout", 900), mem_gb=mem)
    results, status, msgs = parse_cbmc_xml(out, props)
    if results is not None and props and not (extra and "--property" in extra):
        # every listed property must have a verdict (unwinding assertions are generated during symbolic execution and
        # appear in the results only: extra results are fine)
        missing = set(props) - {q["property"] for q in results}
        if missing:
            msgs.append("ERROR: incomplete result list: %d of %d properties have no verdict (e.g. %s)"
                        % (len(missing), len(props), sorted(missing)[0]))
            results = None
    return dict(rc=rc, results=results, status=status, msgs=msgs, secs=secs, cmd=" ".join(cmd),
                rss_gb=LAST_RSS.get(threading.get_ident()),
                err=err[-2000:], raw_tail=out[-2000:])


def parse_cbmc_xml(out, props):
    """Results of a --xml-ui run as a list of dicts shaped like the JSON interface's (property, description, status,
    sourceLocation); None when the run did not get as far as a result list."""
    st = re.search(r"<cprover-status>(\w+)</cprover-status>", out)
    msgs = [re.sub(r"\s+", " ", m).strip() for m in re.findall(r'<message type="ERROR">\s*<text>(.*?)</text>', out, flags=re.S)]
    found = re.findall(r'<result property="([^"]+)" status="([^"]+)"', out)
    if not found or st is None:
        return None, (st.group(1) if st else None), msgs
    results = []
    for name, status in found:
        q = props.get(name, {})
        loc = q.get("sourceLocation", {})
        results.append(dict(property=name, status=status, description=q.get("description", ""),
                            sourceLocation=dict(file=loc.get("file", ""), line=loc.get("line"), function=loc.get("function"))))
    return results, st.group(1), msgs


def trace_for(proof, gb, tmp, log, propname, backend=None):
    r = run_cbmc(proof, gb, tmp, log, backend=backend, extra=["--trace", "--property", propname],
                 timeout=proof.get("timeout", 900), ui="json")
    if not r["results"]:
        return None
    for p in r["results"]:
        if p["property"] == propname and p.get("trace"):
            return p["trace"]
    return None


def trace_inputs(trace):
    """Reduce a CBMC trace to the last value of each named harness variable (in_*, g_*, w_*)."""
    vals = {}
    for st in trace or []:
        if st.get("stepType") != "assignment":
            continue
        lhs = st.get("lhs", "")
        if st.get("hidden") and not re.match(r"^(in_|w_)", lhs):
            continue
        base = lhs.split("[")[0].split(".")[0]
        if re.match(r"^(in_|w_|g_|out_|verif_)", base):
            v = st.get("value", {})
            vals[lhs] = v.get("data", v.get("name"))
    return vals


def run_proof(proof, tier, keep=False, backend=None):
    """Build + verify one registry entry; recursion fallback: when DFCC's structural check no_recursive_call fails (the
    function under contract became recursive, which voids the proof), the proof is re-run once with the library's calls
    of the function redirected to a generated twin carrying a verbatim copy of its contract (induction hypothesis), new
    loops cut at a small bound without unwinding assertions.  Only counterexamples of that re-run are used; when it finds
    none the original (void) result stands and the check stays UNDECIDED."""
    res = _run_proof_once(proof, tier, keep=keep, backend=backend)
    f = proof.get("enforce")
    if not f or proof.get("twins") or proof.get("auto_twin") or res.get("undecided"):
        return res
    if not any("no_recursive_call" in ob["name"] and ob["status"] == "FAILURE" for ob in res["obligations"]):
        return res
    p2 = dict(proof)
    p2["auto_twin"] = f
    for k in ("loops", "loop_fingerprint", "unwindset", "inline_loop_contracts"):
        p2.pop(k, None)
    p2["unwind"] = 4
    p2["cbmc_flags"] = [x for x in proof.get("cbmc_flags", STD_CHECKS) if x != "--unwinding-assertions"] + ["--no-unwinding-assertions"]
    p2["must_exist"] = []
    p2["min_covers"] = 0
    p2["object_bits"] = max(12, proof.get("object_bits", 0) or 0)
    r2 = _run_proof_once(p2, tier, keep=keep, backend=backend)
    hard = [ob for ob in r2["obligations"] if ob["status"] == "FAILURE" and ob["kind"] not in ("cover", "spec_safety", "unwind", "other")]
    if r2.get("undecided") or not hard:
        res["log"] = res.get("log", []) + ["RECURSION FALLBACK gave no counterexample: " + str(r2.get("undecided"))]
        return res
    for ob in hard:
        ob["desc"] = "[re-run through a generated induction-hypothesis twin after %s became recursive] %s" % (f, ob["desc"])
    r2["obligations"] = hard + [ob for ob in r2["obligations"] if ob["kind"] == "cover"]
    r2["recursion_fallback"] = f
    r2["wall_s"] = r2.get("wall_s", 0) + res.get("wall_s", 0)
    return r2


def _run_proof_once(proof, tier, keep=False, backend=None):
    """Build + verify one registry entry.  Returns a result dict (never raises)."""
    t0 = time.time()
    log = []
    tmp = tempfile.mkdtemp(prefix="verif-%s-" % proof["name"])
    res = dict(name=proof["name"], kind=proof.get("kind", "proof"), bound=proof.get("bound"),
               enforce=proof.get("enforce"), replaced=proof.get("replace", []),
               twins=proof.get("twins", {}), obligations=[], undecided=None, log=log,
               backend=backend or proof.get("backend", "minisat"))
    degraded = None
    try:
        try:
            gb = build_proof(proof, tmp, log)
        except LoopsChanged as e:
            degraded = str(e)
            p2 = dict(proof)
            p2.pop("loops", None); p2.pop("loop_fingerprint", None); p2.pop("unwindset", None)
            p2["unwind"] = 4
            p2["cbmc_flags"] = [f for f in proof.get("cbmc_flags", STD_CHECKS) if f != "--unwinding-assertions"] + ["--no-unwinding-assertions"]
            p2["must_exist"] = []
            p2["object_bits"] = max(12, proof.get("object_bits", 0) or 0)   # unwinding multiplies the addressed objects
            proof = p2
            log.append("DEGRADED MODE: " + degraded)
            gb = build_proof(proof, tmp, log)
        r = run_cbmc(proof, gb, tmp, log, backend=backend)
        res["solver_s"] = r["secs"]
        res["rss_gb"] = r.get("rss_gb")
        res["cmd"] = r["cmd"]
        if r["results"] is None:
            raise Undecided("cbmc gave no (complete) result list (rc=%s): %s %s %s" % (r["rc"], "; ".join(r["msgs"][-3:]), r["err"][-300:], r["raw_tail"][-300:]))
        if any("ignoring" in m and ("forall" in m or "exists" in m) for m in r["msgs"]):
            raise Undecided("back end ignored a quantifier")
        names = set()
        if any(p["status"] == "ERROR" for p in r["results"]):
            raise Undecided("back end reported ERROR for %d obligations (solver failure, not a verdict)"
                            % sum(1 for p in r["results"] if p["status"] == "ERROR"))
        for p in r["results"]:
            kind, tags = classify(p)
            loc = p.get("sourceLocation", {})
            ob = dict(name=p["property"], desc=p.get("description", ""), status=p["status"], kind=kind,
                      tags=tags, file=loc.get("file"), line=loc.get("line"), function=loc.get("function"))
            res["obligations"].append(ob)
            names.add(p["property"])
        # vacuity guards: named obligations must exist
        for pat in proof.get("must_exist", []):
            rx = re.compile(pat)
            if not any(rx.search(n) for n in names):
                raise Undecided("expected obligation matching /%s/ is absent - contract or loop contract "
                                "silently dropped?" % pat)
        # a FAILURE of a real obligation is a verdict whatever the cover points say (a change can make a cover point
        # unreachable AND fail obligations: that is a violation, not a vacuity problem); the vacuity guard only
        # protects runs in which everything "passed"
        any_failure = any(ob["kind"] not in ("cover", "spec_safety", "unwind") and ob["status"] == "FAILURE" for ob in res["obligations"])
        res["unwind_exceeded"] = [ob["name"] for ob in res["obligations"] if ob["kind"] == "unwind" and ob["status"] == "FAILURE"]
        if res["unwind_exceeded"] and not any_failure and not degraded:
            raise Undecided("unwinding bound exceeded (%s): a loop runs longer than this proof's bound - exploration incomplete"
                            % ", ".join(res["unwind_exceeded"][:3]))
        ncover = 0
        res["unreachable_covers"] = []
        for ob in res["obligations"]:
            if ob["kind"] == "cover":
                ncover += 1
                if ob["status"] != "FAILURE" and not degraded:
                    if not any_failure:
                        raise Undecided("cover point unreachable (vacuous precondition?): %s" % ob["desc"])
                    # next to a failure: decided per property by the caller (a failure attributed to ANOTHER property
                    # must not switch the guard off for this one: DFCC checks are assert-then-assume, everything behind a
                    # failed precondition is assumed away)
                    res["unreachable_covers"].append(ob["desc"])
        if ncover < proof.get("min_covers", 1) and not degraded and not any_failure:
            raise Undecided("fewer cover points than required (%d < %d)" % (ncover, proof.get("min_covers", 1)))
        # expected failures (canary mode)
        # counterexamples for real failures
        fails = [ob for ob in res["obligations"] if ob["kind"] not in ("cover", "spec_safety", "unwind") and ob["status"] != "SUCCESS"]
        for ob in fails[:proof.get("max_traces", 2)]:
            if ob["status"] == "FAILURE":
                tr = trace_for(proof, gb, tmp, log, ob["name"], backend=backend)
                ob["inputs"] = trace_inputs(tr)
        hard = [ob for ob in fails if ob["status"] == "FAILURE"]
        for ob in fails:
            # UNKNOWN: CBMC could not decide the obligation independently of an earlier failed one
            # (DFCC checks are assert-then-assume).  Alone it is undecided; next to a FAILURE it is dropped.
            if ob["status"] != "FAILURE" and not hard:
                raise Undecided("obligation %s has status %s" % (ob["name"], ob["status"]))
        if hard:
            res["obligations"] = [ob for ob in res["obligations"] if ob["status"] in ("SUCCESS", "FAILURE")]
        if degraded:
            if hard:
                res["degraded"] = degraded
                # only genuine counterexamples are kept; everything else of this run is meaningless
                res["obligations"] = [ob for ob in res["obligations"] if ob["status"] == "FAILURE" or ob["kind"] == "cover"]
                for ob in res["obligations"]:
                    if ob["kind"] != "cover":
                        ob["desc"] = "[found in degraded bounded mode after the loop structure changed] " + ob["desc"]
            else:
                raise Undecided(degraded + " (degraded bounded run found no counterexample)")
    except Undecided as e:
        res["undecided"] = str(e)
    except Exception as e:  # tool/driver crash is never a violation
        res["undecided"] = "driver error: %r" % (e,)
    finally:
        if keep:
            res["tmp"] = tmp
        else:
            shutil.rmtree(tmp, ignore_errors=True)
    res["wall_s"] = time.time() - t0
    return res
