#include <stddef.h>
const unsigned char *g_u_src;
size_t g_u_len, g_u_calls, g_u_count;
unsigned g_u_state;
