/* Shallow validity of one item node (DESIGN 3.1), as pure boolean macros over the node's fields.
 * Children are NOT required to be valid by these predicates (hereditary validity: DESIGN 3.2, A1). */
#ifndef VERIF_VALID_H
#define VERIF_VALID_H
#include "contracts/ghost.h"
#include "cbor.h"

/* container capacities are bounded so that capacity * 16 stays inside one CBMC object */
#define VERIF_MAXCNT (VERIF_MAXOBJ / 16)

#define ITEM_R(it) (__CPROVER_r_ok((it), sizeof(cbor_item_t)))
#define ITEM_RW(it) (__CPROVER_rw_ok((it), sizeof(cbor_item_t)))
/* a block handed to realloc/free must be a live heap block at offset 0 */
#define HEAP_BLOCK(p) (__CPROVER_DYNAMIC_OBJECT(p) && __CPROVER_POINTER_OFFSET(p) == 0)

/* address of the combined-allocation payload (ints, floats).  Contracts name the payload through this
 * expression rather than through the loaded pointer it->data (equal by validity): CBMC cannot resolve a
 * pointer loaded from a contract-introduced object, so facts stated through it would be lost in REPLACE mode */
#define PAYLOAD(it) ((unsigned char *)(it) + sizeof(cbor_item_t))

#define IS_INT(it) ((it)->type == CBOR_TYPE_UINT || (it)->type == CBOR_TYPE_NEGINT)
#define INT_WIDTH(it) ((it)->metadata.int_metadata.width)
#define INT_BYTES(it) ((size_t)1 << (unsigned)INT_WIDTH(it))
/* integers: combined allocation, payload right behind the node */
#define INT_VALID(it)                                                                     \
  (ITEM_RW(it) && IS_INT(it) && (unsigned)INT_WIDTH(it) <= 3u &&                          \
   (it)->data == (unsigned char *)(it) + sizeof(cbor_item_t) &&                           \
   __CPROVER_rw_ok((it), sizeof(cbor_item_t) + INT_BYTES(it)))

#define FL_WIDTH(it) ((it)->metadata.float_ctrl_metadata.width)
#define FL_BYTES(it) (FL_WIDTH(it) == CBOR_FLOAT_64 ? (size_t)8 : (size_t)4)
#define FLOAT_CTRL_VALID(it)                                                              \
  (ITEM_RW(it) && (it)->type == CBOR_TYPE_FLOAT_CTRL && (unsigned)FL_WIDTH(it) <= 3u &&   \
   (FL_WIDTH(it) == CBOR_FLOAT_0 ||                                                       \
    ((it)->data == (unsigned char *)(it) + sizeof(cbor_item_t) &&                         \
     __CPROVER_rw_ok((it), sizeof(cbor_item_t) + FL_BYTES(it)))))

#define BS_META(it) ((it)->metadata.bytestring_metadata)
#define ST_META(it) ((it)->metadata.string_metadata)
/* definite strings own a buffer, also when empty: that is what the decoder and cbor_build_* produce.  A handle-less fresh
 * item (cbor_new_definite_bytestring() before set_handle) is outside every listed property's scope; serializing or copying
 * it calls memcpy(dst, NULL, 0), which C99 leaves undefined (DESIGN 11.5) */
#define BYTESTRING_DEF_VALID(it)                                                          \
  (ITEM_RW(it) && (it)->type == CBOR_TYPE_BYTESTRING && BS_META(it).type == _CBOR_METADATA_DEFINITE && \
   BS_META(it).length <= VERIF_MAXOBJ && (BS_META(it).length == 0 ? (it)->data != NULL : __CPROVER_r_ok((it)->data, BS_META(it).length)))
#define STRING_DEF_VALID(it)                                                              \
  (ITEM_RW(it) && (it)->type == CBOR_TYPE_STRING && ST_META(it).type == _CBOR_METADATA_DEFINITE && \
   ST_META(it).length <= VERIF_MAXOBJ && (ST_META(it).length == 0 ? (it)->data != NULL : __CPROVER_r_ok((it)->data, ST_META(it).length)))

#define CHUNKS(it) ((struct cbor_indefinite_string_data *)(it)->data)
#define CHUNKED_DATA_VALID(it)                                                            \
  (__CPROVER_rw_ok((it)->data, sizeof(struct cbor_indefinite_string_data)) &&             \
   CHUNKS(it)->chunk_count <= CHUNKS(it)->chunk_capacity && CHUNKS(it)->chunk_capacity <= VERIF_MAXCNT && \
   (CHUNKS(it)->chunk_capacity == 0                                                       \
        ? CHUNKS(it)->chunks == NULL                                                      \
        : __CPROVER_rw_ok(CHUNKS(it)->chunks, CHUNKS(it)->chunk_capacity * sizeof(cbor_item_t *))))
#define BYTESTRING_INDEF_VALID(it)                                                        \
  (ITEM_RW(it) && (it)->type == CBOR_TYPE_BYTESTRING && BS_META(it).type == _CBOR_METADATA_INDEFINITE && \
   CHUNKED_DATA_VALID(it))
#define STRING_INDEF_VALID(it)                                                            \
  (ITEM_RW(it) && (it)->type == CBOR_TYPE_STRING && ST_META(it).type == _CBOR_METADATA_INDEFINITE && \
   CHUNKED_DATA_VALID(it))

#define AR_META(it) ((it)->metadata.array_metadata)
#define AR_SLOTS(it) ((cbor_item_t **)(it)->data)
#define ARRAY_VALID(it)                                                                   \
  (ITEM_RW(it) && (it)->type == CBOR_TYPE_ARRAY &&                                        \
   (AR_META(it).type == _CBOR_METADATA_DEFINITE || AR_META(it).type == _CBOR_METADATA_INDEFINITE) && \
   AR_META(it).end_ptr <= AR_META(it).allocated && AR_META(it).allocated <= VERIF_MAXCNT && \
   (AR_META(it).allocated == 0                                                            \
        ? (AR_META(it).type == _CBOR_METADATA_DEFINITE || (it)->data == NULL)             \
        : __CPROVER_rw_ok((it)->data, AR_META(it).allocated * sizeof(cbor_item_t *))))

#define MP_META(it) ((it)->metadata.map_metadata)
#define MP_PAIRS(it) ((struct cbor_pair *)(it)->data)
#define MAP_VALID(it)                                                                     \
  (ITEM_RW(it) && (it)->type == CBOR_TYPE_MAP &&                                          \
   (MP_META(it).type == _CBOR_METADATA_DEFINITE || MP_META(it).type == _CBOR_METADATA_INDEFINITE) && \
   MP_META(it).end_ptr <= MP_META(it).allocated && MP_META(it).allocated <= VERIF_MAXCNT && \
   (MP_META(it).allocated == 0                                                            \
        ? (MP_META(it).type == _CBOR_METADATA_DEFINITE || (it)->data == NULL)             \
        : __CPROVER_rw_ok((it)->data, MP_META(it).allocated * sizeof(struct cbor_pair))))

#define TG_META(it) ((it)->metadata.tag_metadata)
/* data is never used for tags but IS handed to free on release: it must be NULL (as cbor_new_tag sets it) */
#define TAG_VALID(it) (ITEM_RW(it) && (it)->type == CBOR_TYPE_TAG && (it)->data == NULL)

/* ghost index used to speak about "the element at an arbitrary position" in container contracts */
extern size_t g_k;
/* ghost snapshot taken by a harness before the call: the element (or pair, or reference count) at the watched
 * position.  __CPROVER_old() cannot be used for this: it would read the slot unconditionally, also when the
 * index is out of range (tool: ternaries inside old() are rejected, unguarded reads are flagged).
 * valid == false (what library callers see) makes every clause that mentions the snapshot vacuous. */
struct verif_snap_ghost {
  bool valid;
  cbor_item_t *item;  /* array slot / chunk */
  cbor_item_t *key;   /* map pair */
  cbor_item_t *value;
  size_t refcount;    /* reference count of the element an accessor is about to hand out */
  unsigned char byte; /* payload byte at the watched position (strings) */
};
extern struct verif_snap_ghost g_s;
#endif
