/* cbor_stream_decode: one call on an arbitrary buffer of arbitrary length, recording callbacks. */
#include <stdlib.h>
#include "cbor.h"
#include "stubs/alloc_model.h"
#include "stubs/recorder.h"

size_t nondet_size(void);
void *nondet_ptr(void);

void harness(void) {
  VERIF_ALLOC_RESET();
  VERIF_REC_RESET();
  /* the streaming decoder must not touch the allocator at all (C13) */
  verif_bind_allocator();
  g_alloc_forbidden = true;

  size_t in_size = nondet_size();
  __CPROVER_assume(in_size <= VERIF_MAXOBJ);
  unsigned char *buf = malloc(in_size);
  __CPROVER_assume(buf != NULL);
  struct cbor_callbacks *table = malloc(sizeof(*table));
  __CPROVER_assume(table != NULL);
  VERIF_REC_TABLE_INIT(*table);
  void *ctx = nondet_ptr();
  /* named copies of the leading bytes, so that a counterexample can be replayed natively */
  unsigned char w_0 = in_size > 0 ? buf[0] : 0, w_1 = in_size > 1 ? buf[1] : 0, w_2 = in_size > 2 ? buf[2] : 0,
                w_3 = in_size > 3 ? buf[3] : 0, w_4 = in_size > 4 ? buf[4] : 0, w_5 = in_size > 5 ? buf[5] : 0,
                w_6 = in_size > 6 ? buf[6] : 0, w_7 = in_size > 7 ? buf[7] : 0, w_8 = in_size > 8 ? buf[8] : 0;

  struct cbor_decoder_result r = cbor_stream_decode(buf, in_size, table, ctx);

  __CPROVER_assert(g_malloc_calls == 0 && g_realloc_calls == 0 && g_free_calls == 0,
                   "C08,C13: the streaming decoder requests and releases no memory");
  __CPROVER_assert(r.status != CBOR_DECODER_FINISHED, "COVER finished");
  __CPROVER_assert(r.status != CBOR_DECODER_NEDATA, "COVER nedata");
  __CPROVER_assert(r.status != CBOR_DECODER_ERROR, "COVER error");
  __CPROVER_assert(!(r.status == CBOR_DECODER_NEDATA && in_size == 0), "COVER empty buffer");
  __CPROVER_assert(!(r.status == CBOR_DECODER_NEDATA && in_size >= 9), "COVER payload missing after 8-byte length");
  __CPROVER_assert(!(r.status == CBOR_DECODER_FINISHED && g_ev_slot == EV_TSTR && g_ev_arg > 70000), "COVER long string delivered");
  __CPROVER_assert(!(r.status == CBOR_DECODER_FINISHED && g_ev_slot == EV_FLOAT2), "COVER half float");
  __CPROVER_assert(!(r.status == CBOR_DECODER_FINISHED && g_ev_slot == EV_BREAK), "COVER break");
  __CPROVER_assert(!(r.status == CBOR_DECODER_FINISHED && g_ev_slot == EV_UINT64), "COVER uint64");
  __CPROVER_assert(!(r.status == CBOR_DECODER_FINISHED && g_ev_slot == EV_MAP && w_0 == 0xBB), "COVER map 8-byte count");
  (void)w_1; (void)w_2; (void)w_3; (void)w_4; (void)w_5; (void)w_6; (void)w_7; (void)w_8;
}
