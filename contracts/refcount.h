/* cbor_decref / cbor_intermediate_decref (C04): general contract used by callers, and the
 * induction-hypothesis twin used for children in the per-node-kind step proofs (DESIGN 3.2). */
#ifndef VERIF_C_REFCOUNT_H
#define VERIF_C_REFCOUNT_H
#include "contracts/items_cont.h"

/* ghost bookkeeping of the twin: how many child releases, how many of them on the watched slot */
struct verif_decref_ghost {
  size_t calls;            /* twin calls so far */
  size_t hits;             /* twin calls whose argument was the watched slot */
  cbor_item_t **last;      /* argument of the most recent twin call */
};
extern struct verif_decref_ghost g_d;


/* constants of one step proof, set by the harness and never assigned afterwards: loop-contract expressions
 * cannot contain casts to struct types (tool limit), so the typed base pointer and the child count live here */
struct verif_decref_const {
  size_t n;                /* number of child slots of the node under release */
  struct cbor_pair *pairs; /* maps: the pair storage */
  cbor_item_t **watched;   /* address of the watched child slot */
  bool expect;             /* the watched slot holds a child that must be released (non-NULL when visited) */
  bool watch_value;        /* maps: the watched slot is the value (released only if non-NULL), else the key */
};
extern struct verif_decref_const g_dc;

/* releasing a child: the induction hypothesis says it behaves like cbor_decref on a valid tree; the only
 * facts a parent step needs are that the slot itself is a valid location and the bookkeeping */
void cbor_decref__child(cbor_item_t **item_ref)
__CPROVER_requires(__CPROVER_rw_ok(item_ref, sizeof(cbor_item_t *)))
__CPROVER_requires(g_d.calls < SIZE_MAX / 2 && g_d.hits < SIZE_MAX / 2)
__CPROVER_assigns(g_d, *item_ref)
__CPROVER_ensures(g_d.calls == OLD(g_d.calls) + 1 && g_d.last == item_ref &&
                  g_d.hits == OLD(g_d.hits) + (item_ref == g_dc.watched ? 1 : 0));

/* General contract (what a caller may rely on for a valid tree): one reference less; when it was the last
 * one the node is released through the configured free and the caller's pointer is nulled. */
/* ITP names the item in the post-state through a pointer CBMC can resolve (the parameter itself, or the OLD
 * value of *item_ref - not the havocked *item_ref, see the replace-mode note in items_ops.h) */
#define DECREF_CONTRACT(ITP, IT)                                                                 \
  __CPROVER_requires(ALLOC_MODEL_BOUND && ITEM_RW(IT) && (IT)->refcount >= 1)                    \
  __CPROVER_ensures(OLD((IT)->refcount) > 1 ==>                                                  \
                    ((ITP)->refcount == OLD((IT)->refcount) - 1 && g_live == OLD(g_live) &&      \
                     g_free_calls == OLD(g_free_calls)))                                         \
  __CPROVER_ensures(OLD((IT)->refcount) == 1 ==> g_free_calls > OLD(g_free_calls))               \
  /* leaf kinds (combined allocation): exactly the node block goes away */                       \
  __CPROVER_ensures((OLD((IT)->refcount) == 1 && (OLD((IT)->type) == CBOR_TYPE_UINT || OLD((IT)->type) == CBOR_TYPE_NEGINT || OLD((IT)->type) == CBOR_TYPE_FLOAT_CTRL)) ==> \
                    (g_live == OLD(g_live) - 1 && g_free_calls == OLD(g_free_calls) + 1))        \
  __CPROVER_ensures(g_malloc_calls == OLD(g_malloc_calls) && g_realloc_calls == OLD(g_realloc_calls))

/* which blocks a last release hands to the configured free, by node kind (written from data.h's layout
 * description): the node always; the buffer / slot storage / chunk bookkeeping of non-combined kinds; the
 * chunk table of chunked strings */
#define HAS_DATA_BLOCK(it)                                                                       \
  ((it)->type == CBOR_TYPE_BYTESTRING || (it)->type == CBOR_TYPE_STRING || (it)->type == CBOR_TYPE_ARRAY || \
   (it)->type == CBOR_TYPE_MAP || (it)->type == CBOR_TYPE_TAG)
#define IS_CHUNKED(it)                                                                           \
  (((it)->type == CBOR_TYPE_BYTESTRING && BS_META(it).type != _CBOR_METADATA_DEFINITE) ||        \
   ((it)->type == CBOR_TYPE_STRING && ST_META(it).type != _CBOR_METADATA_DEFINITE))
#define DECREF_FREES_G(G, IT)                                                                    \
  __CPROVER_frees((G) && (IT)->refcount == 1 : (IT))                                             \
  __CPROVER_frees((G) && (IT)->refcount == 1 && HAS_DATA_BLOCK(IT) : (IT)->data)                 \
  __CPROVER_frees((G) && (IT)->refcount == 1 && IS_CHUNKED(IT) : CHUNKS(IT)->chunks)
#define DECREF_FREES(IT) DECREF_FREES_G(1, IT)
/* what a last release may write before freeing: the node, its child slots (each child's release nulls or
 * rewrites its slot), the twin's ghost bookkeeping */
#define DECREF_ASSIGNS_G(G, IT)                                                                  \
  __CPROVER_assigns(ALLOC_GHOSTS, g_d)                                                           \
  __CPROVER_assigns((G) : (IT)->refcount)                                                        \
  __CPROVER_assigns((G) && (IT)->refcount == 1 : __CPROVER_object_whole(IT))                     \
  __CPROVER_assigns((G) && (IT)->refcount == 1 && HAS_DATA_BLOCK(IT) && (IT)->data != NULL : __CPROVER_object_whole((IT)->data)) \
  __CPROVER_assigns((G) && (IT)->refcount == 1 && IS_CHUNKED(IT) && CHUNKS(IT)->chunks != NULL : __CPROVER_object_whole(CHUNKS(IT)->chunks))
/* data blocks must be releasable: NULL or a live heap block at offset 0 */
#define DATA_FREEABLE(it)                                                                        \
  (!HAS_DATA_BLOCK(it) || (it)->data == NULL || HEAP_BLOCK((it)->data))

void cbor_decref(cbor_item_t **item_ref)
__CPROVER_requires(__CPROVER_rw_ok(item_ref, sizeof(cbor_item_t *)))
DECREF_CONTRACT(OLD(*item_ref), *item_ref)
__CPROVER_requires(HEAP_BLOCK(*item_ref) && DATA_FREEABLE(*item_ref))
__CPROVER_assigns(*item_ref)
DECREF_ASSIGNS_G(1, *item_ref)
DECREF_FREES(*item_ref)
__CPROVER_ensures(OLD((*item_ref)->refcount) > 1 ? *item_ref == OLD(*item_ref) : *item_ref == NULL);

/* Induction-hypothesis variant for a parent that releases a stored element (cbor_array_replace): the
 * element's node header is valid; whatever else its release touches lies inside the element's own subtree,
 * which the parent never accesses (hereditary validity, A1) - so only the header and the ghosts are in the
 * frame.  Used with --replace-call-with-contract cbor_intermediate_decref/cbor_intermediate_decref__child. */
/* Release of a node the caller owns alone and that has no children yet (what the opener callbacks do when the
 * stack refuses the frame): a consequence of the per-kind steps decref_* (which assert it: "childless release"),
 * stated with a small frame so that callers need not evaluate the general contract's conditional targets. */
#define CHILDLESS(it)                                                                            \
  (((it)->type != CBOR_TYPE_ARRAY || AR_META(it).end_ptr == 0) && ((it)->type != CBOR_TYPE_MAP || MP_META(it).end_ptr == 0) && \
   ((it)->type != CBOR_TYPE_TAG || TG_META(it).tagged_item == NULL) &&                           \
   (!IS_CHUNKED(it) || (CHUNKS(it)->chunk_count == 0 && CHUNKS(it)->chunks == NULL)))
void cbor_decref__childless(cbor_item_t **item_ref)
__CPROVER_requires(ALLOC_MODEL_BOUND)
__CPROVER_requires(__CPROVER_rw_ok(item_ref, sizeof(cbor_item_t *)) && ITEM_RW(*item_ref))
__CPROVER_requires((*item_ref)->refcount == 1 && HEAP_BLOCK(*item_ref))
__CPROVER_requires(DATA_FREEABLE(*item_ref))
__CPROVER_requires(CHILDLESS(*item_ref))
__CPROVER_assigns(ALLOC_GHOSTS, *item_ref)
__CPROVER_frees(*item_ref)
__CPROVER_frees(HAS_DATA_BLOCK(*item_ref) : (*item_ref)->data)
__CPROVER_ensures(*item_ref == NULL && g_malloc_calls == OLD(g_malloc_calls) && g_realloc_calls == OLD(g_realloc_calls) &&
                  g_refused == OLD(g_refused) && g_last_req == OLD(g_last_req))
__CPROVER_ensures(g_live == OLD(g_live) - 1 - (((OLD((*item_ref)->type) == CBOR_TYPE_BYTESTRING || OLD((*item_ref)->type) == CBOR_TYPE_STRING || OLD((*item_ref)->type) == CBOR_TYPE_ARRAY || OLD((*item_ref)->type) == CBOR_TYPE_MAP || OLD((*item_ref)->type) == CBOR_TYPE_TAG) && OLD((*item_ref)->data) != NULL) ? 1 : 0));

/* Hereditary variant of cbor_decref for a parent that gives up its reference to an item whose subtree it never
 * looks at (the decoder's _cbor_builder_append): node header and ghosts in the frame, the subtree is the item's
 * own business (A1).  Same role as cbor_intermediate_decref__child. */
void cbor_decref__owned(cbor_item_t **item_ref)
__CPROVER_requires(ALLOC_MODEL_BOUND && __CPROVER_rw_ok(item_ref, sizeof(cbor_item_t *)) && ITEM_RW(*item_ref) &&
                   (*item_ref)->refcount >= 1 && HEAP_BLOCK(*item_ref))
__CPROVER_assigns(ALLOC_GHOSTS, g_d, *item_ref, (*item_ref)->refcount)
__CPROVER_frees((*item_ref)->refcount == 1 : *item_ref)
__CPROVER_ensures(OLD((*item_ref)->refcount) > 1 ==>
                  ((OLD(*item_ref))->refcount == OLD((*item_ref)->refcount) - 1 && *item_ref == OLD(*item_ref) &&
                   g_live == OLD(g_live) && g_free_calls == OLD(g_free_calls)))
__CPROVER_ensures(OLD((*item_ref)->refcount) == 1 ==> (*item_ref == NULL && g_free_calls > OLD(g_free_calls)))
__CPROVER_ensures(g_malloc_calls == OLD(g_malloc_calls) && g_realloc_calls == OLD(g_realloc_calls) && g_refused == OLD(g_refused));

void cbor_intermediate_decref__child(cbor_item_t *item)
__CPROVER_requires(ALLOC_MODEL_BOUND && ITEM_RW(item) && item->refcount >= 1 && HEAP_BLOCK(item))
__CPROVER_assigns(ALLOC_GHOSTS, item->refcount)
__CPROVER_frees(item->refcount == 1 : item)
__CPROVER_ensures(OLD(item->refcount) > 1 ==>
                  (item->refcount == OLD(item->refcount) - 1 && g_live == OLD(g_live) && g_free_calls == OLD(g_free_calls)))
__CPROVER_ensures(OLD(item->refcount) == 1 ==> g_free_calls > OLD(g_free_calls))
__CPROVER_ensures(g_malloc_calls == OLD(g_malloc_calls) && g_realloc_calls == OLD(g_realloc_calls));

void cbor_intermediate_decref(cbor_item_t *item)
DECREF_CONTRACT(item, item)
__CPROVER_requires(HEAP_BLOCK(item) && DATA_FREEABLE(item))
DECREF_ASSIGNS_G(1, item)
DECREF_FREES(item);
#endif
